#!/usr/bin/env python3
"""Verify a seeded change produced in a scratch worktree and run the owning check against it.
  ./seedcheck.py <seed-id> <property> <worktree> [--extra-check <ID> ...]
Steps: (1) repository suite passes with the change (demo excluded), (2) demo fails with it,
(3) demo passes without it; artefacts are copied to seeded/<seed-id>/; the patch is applied to /repo,
the property's quick check is run (generated tier alone and full), /repo is restored; meta.json is written."""
import json, os, shutil, subprocess, sys, time
VERIF = os.path.dirname(os.path.abspath(__file__))
sys.path.insert(0, VERIF)
from driver import go_env

def sh(cmd, cwd, env=None, timeout=3600):
    p = subprocess.run(cmd, cwd=cwd, env=env or go_env(), shell=True, capture_output=True, text=True, timeout=timeout)
    return p.returncode, (p.stdout + p.stderr)

def main():
    sid, pid, wt = sys.argv[1], sys.argv[2], sys.argv[3]
    extra = [a for a in sys.argv[4:] if a.startswith("C")]
    seed = os.path.join(wt, "_seed")
    dst = os.path.join(VERIF, "seeded", sid)
    os.makedirs(dst, exist_ok=True)
    patch = os.path.join(seed, "patch.diff")
    meta = {"id": sid, "property": pid, "when": time.strftime("%Y-%m-%d %H:%M")}
    # make sure the change is applied in the worktree
    rc, out = sh("git apply --check -R _seed/patch.diff", wt)
    if rc != 0:
        sh("git apply _seed/patch.diff", wt)
    # (1) suite with the change, demo excluded
    rc1, out1 = sh("go build ./... && go test -vet=off -count=1 -skip TestSeedDemo ./...", wt)
    meta["suite_passes_with_change"] = rc1 == 0
    # (2) demo with the change
    rc2, out2 = sh("go test -vet=off -count=1 -run TestSeedDemo ./...", wt)
    meta["demo_fails_with_change"] = rc2 != 0 and "FAIL" in out2
    # (3) demo without the change
    sh("git apply -R _seed/patch.diff", wt)
    rc3, out3 = sh("go test -vet=off -count=1 -run TestSeedDemo ./...", wt)
    meta["demo_passes_without_change"] = rc3 == 0
    sh("git apply _seed/patch.diff", wt)
    for f in os.listdir(seed):
        src = os.path.join(seed, f)
        if os.path.isdir(src):
            shutil.copytree(src, os.path.join(dst, f), dirs_exist_ok=True)
        else:
            shutil.copy(src, os.path.join(dst, f))
    if os.environ.get("SEEDCHECK_USE_WORKTREE"):
        # /repo is in use (e.g. a thorough run is building from it): run the checks against the
        # change's own worktree (same commit as /repo, change applied) through VERIF_REPO
        meta["applies_to_repo"] = True
        meta["run_against"] = "the change's worktree via VERIF_REPO (same commit as /repo)"
        results = {}
        for cid in [pid] + extra:
            env = dict(os.environ)
            env["VERIF_REPO"] = wt
            env["VERIF_SKIP_REPLAYS"] = "1"
            env["VERIF_EVIDENCE_DIR"] = "/var/tmp/seed-evidence-"+sid
            env["VERIF_FOUND_DIR"] = "/var/tmp/seed-found-"+sid
            t0 = time.time()
            c = subprocess.run([os.path.join(VERIF, "check"), cid, "quick"], cwd=VERIF, env=env, capture_output=True, text=True)
            viol = [l for l in c.stdout.splitlines() if l.startswith("  violation:")]
            results[cid] = {"quick_generated_tier_exit": c.returncode, "wall_s": round(time.time() - t0, 1),
                            "first_violation": viol[0][:400] if viol else ""}
            env.pop("VERIF_SKIP_REPLAYS")
            c2 = subprocess.run([os.path.join(VERIF, "check"), cid, "quick"], cwd=VERIF, env=env, capture_output=True, text=True)
            results[cid]["quick_full_exit"] = c2.returncode
        meta["checks"] = results
        meta["caught_by_quick"] = any(r["quick_generated_tier_exit"] == 1 or r["quick_full_exit"] == 1 for r in results.values())
        shutil.rmtree("/var/tmp/seed-evidence-"+sid, ignore_errors=True)
        shutil.rmtree("/var/tmp/seed-found-"+sid, ignore_errors=True)
        old = {}
        mp = os.path.join(dst, "meta.json")
        if os.path.exists(mp):
            old = json.load(open(mp))
        old.update(meta)
        json.dump(old, open(mp, "w"), indent=1)
        print(json.dumps(meta, indent=1))
        return 0
    # run the checks against /repo with the patch applied
    st = subprocess.run("git -C /repo status --porcelain", shell=True, capture_output=True, text=True).stdout.strip()
    if st:
        print("refusing: /repo is not clean:", st)
        return 2
    rc, out = sh("git -C /repo apply " + patch, "/repo")
    if rc != 0:
        meta["applies_to_repo"] = False
        print(out)
    else:
        meta["applies_to_repo"] = True
        try:
            results = {}
            for cid in [pid] + extra:
                env = dict(os.environ)
                env["VERIF_SKIP_REPLAYS"] = "1"
                env["VERIF_EVIDENCE_DIR"] = "/var/tmp/seed-evidence-"+sid
                env["VERIF_FOUND_DIR"] = "/var/tmp/seed-found-"+sid
                t0 = time.time()
                c = subprocess.run([os.path.join(VERIF, "check"), cid, "quick"], cwd=VERIF, env=env, capture_output=True, text=True)
                viol = [l for l in c.stdout.splitlines() if l.startswith("  violation:")]
                results[cid] = {"quick_generated_tier_exit": c.returncode, "wall_s": round(time.time() - t0, 1),
                                "first_violation": viol[0][:400] if viol else ""}
                env.pop("VERIF_SKIP_REPLAYS")
                c2 = subprocess.run([os.path.join(VERIF, "check"), cid, "quick"], cwd=VERIF, env=env, capture_output=True, text=True)
                results[cid]["quick_full_exit"] = c2.returncode
            meta["checks"] = results
            meta["caught_by_quick"] = any(r["quick_generated_tier_exit"] == 1 or r["quick_full_exit"] == 1 for r in results.values())
        finally:
            subprocess.run("git -C /repo checkout -- . && git -C /repo clean -fdq", shell=True)
            shutil.rmtree("/var/tmp/seed-evidence-"+sid, ignore_errors=True)
            shutil.rmtree("/var/tmp/seed-found-"+sid, ignore_errors=True)
    old = {}
    mp = os.path.join(dst, "meta.json")
    if os.path.exists(mp):
        old = json.load(open(mp))
    old.update(meta)
    json.dump(old, open(mp, "w"), indent=1)
    print(json.dumps(meta, indent=1))
    return 0

if __name__ == "__main__":
    sys.exit(main())
