#!/usr/bin/env python3
"""Driver for the s3db property checks.

  ./check <ID> quick|thorough        run the check for one property
  ./check <ID> --replay <file>       re-execute one saved case (exit 1 + VIOLATION if it fails)

Exit codes: 0 held (or only listed known findings), 1 violation, 2 inconclusive
(build failure, watchdog, worker death that does not reproduce).
"""
import hashlib
import json
import os
import shutil
import subprocess
import sys
import tempfile
import time

VERIF = os.path.dirname(os.path.abspath(__file__))
HARNESS = os.path.join(VERIF, "harness")
GOROOT_BIN = "/root/go/pkg/mod/golang.org/toolchain@v0.0.1-go1.25.0.linux-amd64/bin"
NCPU = os.cpu_count() or 4

sys.path.insert(0, VERIF)
from checks_config import CHECKS  # noqa: E402


def go_env():
    env = dict(os.environ)
    env["PATH"] = GOROOT_BIN + ":" + env.get("PATH", "")
    env["GOFLAGS"] = "-mod=mod"
    env["GOPROXY"] = "off"
    env["GOTOOLCHAIN"] = "local"
    env["GOSUMDB"] = "off"
    env.pop("GOWORK", None)
    # This sandbox exports AWS_CA_BUNDLE; with it the AWS SDK's NewSession rewrites the shared
    # http.DefaultClient's transport on every call (a data race inside the SDK as soon as two
    # threads create sessions). The checks never talk to AWS; keep the SDK's default path.
    env.pop("AWS_CA_BUNDLE", None)
    return env


def splitmix(x):
    x = (x + 0x9E3779B97F4A7C15) & 0xFFFFFFFFFFFFFFFF
    z = x
    z = ((z ^ (z >> 30)) * 0xBF58476D1CE4E5B9) & 0xFFFFFFFFFFFFFFFF
    z = ((z ^ (z >> 27)) * 0x94D049BB133111EB) & 0xFFFFFFFFFFFFFFFF
    return z ^ (z >> 31)


def rapid_seed(seed, sub_index, shard):
    v = splitmix(seed * 1000003 + sub_index * 7919 + shard * 104729)
    return 1 + (v % (2**62))


def build(tmp, race=False, fuzz=None):
    """Build the test binary against the repo under test. Returns path or None."""
    repo = os.environ.get("VERIF_REPO", "/repo")
    env = go_env()
    out = os.path.join(tmp, "checks-race.test" if race else ("checks-fuzz.test" if fuzz else "checks.test"))
    cmd = ["go", "test", "-c", "-tags", "verif", "-o", out]
    if race:
        cmd.append("-race")
    if fuzz:
        cmd.append("-fuzz=" + fuzz)  # coverage instrumentation for native fuzzing
    if os.path.abspath(repo) != "/repo":
        gomod = open(os.path.join(HARNESS, "go.mod")).read().replace("=> /repo", "=> " + os.path.abspath(repo))
        mf = os.path.join(tmp, "go.mod")
        open(mf, "w").write(gomod)
        shutil.copy(os.path.join(HARNESS, "go.sum"), os.path.join(tmp, "go.sum"))
        cmd += ["-modfile", mf]
    cmd.append("./checks")
    p = subprocess.run(cmd, cwd=HARNESS, env=env, stdout=subprocess.PIPE, stderr=subprocess.STDOUT, text=True)
    if p.returncode != 0 or not os.path.exists(out):
        sys.stdout.write(p.stdout[-6000:])
        print("INCONCLUSIVE: build failed")
        return None
    return out


def run_replay(binary, path, tmp, timeout=300, extra_env=None):
    """Returns (status, message): status in ok / fail / died / timeout."""
    env = go_env()
    env["VERIF_REPLAY"] = path
    env["VERIF_OUT"] = ""
    env.pop("VERIF_OUT")
    if extra_env:
        env.update(extra_env)
    try:
        p = subprocess.run([binary, "-test.run", "^TestReplay$", "-test.timeout", "0", "-test.count", "1"],
                           cwd=tmp, env=env, stdout=subprocess.PIPE, stderr=subprocess.STDOUT, text=True,
                           timeout=timeout)
    except subprocess.TimeoutExpired:
        return "timeout", "replay exceeded %ds" % timeout
    out = p.stdout
    if p.returncode == 0 and "REPLAY-OK" in out:
        return "ok", ""
    for line in out.splitlines():
        if line.startswith("REPLAY-FAIL "):
            return "fail", line[len("REPLAY-FAIL "):]
    # died without verdict (e.g. panic inside a cgo callback)
    tail = out[-3000:]
    return "died", tail


def known_findings():
    p = os.path.join(VERIF, "known_findings.json")
    if not os.path.exists(p):
        return []
    return json.load(open(p)).get("findings", [])


def found_dir(pid):
    d = os.path.join(os.environ.get("VERIF_FOUND_DIR") or os.path.join(VERIF, "found"), pid)
    os.makedirs(d, exist_ok=True)
    return d


def save_found(pid, src, tag):
    data = open(src, "rb").read()
    h = hashlib.sha256(data).hexdigest()[:12]
    dst = os.path.join(found_dir(pid), "%s-%s.json" % (tag, h))
    open(dst, "wb").write(data)
    return dst


def matches_known(pid, msg):
    """A failure of the generated tier counts as a listed finding only when the check itself
    identified the finding's trigger and tagged the message with [finding:<id>]."""
    for f in known_findings():
        if f.get("property") == pid and f.get("status") == "open" and ("[finding:%s]" % f["id"]) in msg:
            return f
    return None


def main():
    if len(sys.argv) < 3:
        print(__doc__)
        return 2
    pid = sys.argv[1]
    if pid not in CHECKS:
        print("unknown property", pid)
        return 2
    cfg = CHECKS[pid]
    seed = int(os.environ.get("VERIF_SEED", "1") or "1")
    tmp = tempfile.mkdtemp(prefix="verif-%s-" % pid, dir="/var/tmp")
    try:
        if sys.argv[2] == "--replay":
            path = os.path.abspath(sys.argv[3])
            binary = build(tmp, race=cfg.get("race", False))
            if not binary:
                return 2
            st, msg = run_replay(binary, path, tmp)
            if st == "ok":
                print("replay held: %s" % path)
                return 0
            if st == "timeout":
                print("INCONCLUSIVE: " + msg)
                return 2
            print("replay %s: %s" % (st, msg[:2000]))
            print("VIOLATION property=%s replay=%s" % (pid, path))
            return 1
        tier_name = sys.argv[2]
        if tier_name not in ("quick", "thorough"):
            print(__doc__)
            return 2
        return run_check(pid, cfg, tier_name, seed, tmp)
    finally:
        shutil.rmtree(tmp, ignore_errors=True)


def run_check(pid, cfg, tier_name, seed, tmp):
    t0 = time.time()
    binary = build(tmp, race=cfg.get("race", False))
    if not binary:
        return 2
    violations = []   # (replay path, msg)
    known_lines = []
    inconclusive = []
    notes = []

    # ---- replay tier: curated regression inputs and known-finding witnesses
    rdir = os.path.join(VERIF, "replays", pid)
    replay_files = sorted(os.path.join(rdir, f) for f in os.listdir(rdir)) if os.path.isdir(rdir) else []
    if os.environ.get("VERIF_SKIP_REPLAYS"):
        replay_files = []  # sensitivity self-test: the verdict must come from the generated tier
    witness = {}
    for f in known_findings():
        if f.get("property") == pid and f.get("witness"):
            witness[os.path.abspath(os.path.join(VERIF, f["witness"]))] = f
    replayed = 0
    for path in replay_files:
        if not path.endswith(".json"):
            continue
        st, msg = run_replay(binary, path, tmp)
        replayed += 1
        kf = witness.get(os.path.abspath(path))
        if kf is not None and kf.get("status") == "open":
            if st in ("fail", "died") and kf.get("signature", "") in msg:
                known_lines.append("KNOWN-FINDING: property=%s %s [%s]" % (pid, kf["what"], kf["id"]))
            elif st == "ok":
                notes.append("known finding %s no longer reproduces on this tree" % kf["id"])
            elif st == "timeout":
                inconclusive.append("witness %s timed out" % path)
            else:
                violations.append((path, "witness of %s fails differently: %s" % (kf["id"], msg)))
        else:
            if st == "ok":
                continue
            if st == "timeout":
                inconclusive.append("replay %s timed out" % path)
            else:
                violations.append((path, msg))

    # ---- generated tier
    subs = cfg["subs"]
    procs = []
    total_shards = sum(s.get("shards", {}).get(tier_name, 1) for s in subs if s.get("kind") != "fuzz")
    scale = 1.0
    if total_shards > NCPU:
        scale = NCPU / total_shards
    watchdog = cfg.get("watchdog", {}).get(tier_name, 900 if tier_name == "quick" else 7200)
    fuzz_bin = None
    for si, sub in enumerate(subs):
        if sub.get("kind") == "fuzz":
            if tier_name != "thorough":
                continue
            if fuzz_bin is None:
                fuzz_bin = build(tmp, fuzz="Fuzz")
                if not fuzz_bin:
                    return 2
            out = os.path.join(tmp, "out-%d-0" % si)
            os.makedirs(out)
            corpus = os.path.join(out, "work")
            os.makedirs(corpus)
            args = [fuzz_bin, "-test.run", "^$", "-test.fuzz", "^%s$" % sub["test"], "-test.fuzztime", sub["fuzztime"],
                    "-test.fuzzcachedir", os.path.join(out, "fuzzcache"), "-test.timeout", "0", "-test.parallel", str(sub.get("workers", 8))]
            logf = open(os.path.join(out, "log.txt"), "w")
            p = subprocess.Popen(args, cwd=corpus, env=go_env(), stdout=logf, stderr=subprocess.STDOUT)
            procs.append((si, 0, sub, out, p, logf))
            continue
        nsh = max(1, int(sub.get("shards", {}).get(tier_name, 1) * scale))
        n = sub["cases"][tier_name]
        per = max(1, (n + nsh - 1) // nsh)
        for sh in range(nsh):
            out = os.path.join(tmp, "out-%d-%d" % (si, sh))
            os.makedirs(out)
            env = go_env()
            env.update({
                "VERIF_OUT": out, "VERIF_SHARD": str(sh), "VERIF_NSHARDS": str(nsh), "VERIF_TIER": tier_name,
                "VERIF_SEED": str(seed), "VERIF_CASES": str(per),
            })
            env.update(sub.get("env", {}))
            args = [binary, "-test.run", "^%s$" % sub["test"], "-test.timeout", "0", "-test.count", "1"]
            if sub.get("kind", "rapid") == "rapid":
                args += ["-rapid.checks", str(per), "-rapid.seed", str(rapid_seed(seed, si, sh)),
                         "-rapid.nofailfile", "-rapid.shrinktime", sub.get("shrinktime", "20s")]
            lim = sub.get("mem_kb", 8 * 1024 * 1024)
            logf = open(os.path.join(out, "log.txt"), "w")
            pre = "ulimit -v %d; exec \"$@\"" % lim if not cfg.get("race") else "exec \"$@\""
            waves = sub.get("waves", {}).get(tier_name, 1)
            if waves > 1:
                # the same shard as several processes one after another (for checks whose
                # moment of interest comes once per process); each writes its own stats file
                pre = ("i=0; while [ $i -lt %d ]; do VERIF_SHARD=$((%d+i)) \"$@\" -rapid.seed $((%d+i)) || exit $?; i=$((i+1)); done"
                       % (waves, sh * 10000, rapid_seed(seed, si, sh)))
            p = subprocess.Popen(["bash", "-c", pre, "sh"] + args, cwd=tmp, env=env, stdout=logf, stderr=subprocess.STDOUT)
            procs.append((si, sh, sub, out, p, logf))

    deadline = time.time() + watchdog
    for si, sh, sub, out, p, logf in procs:
        left = max(1, deadline - time.time())
        try:
            p.wait(timeout=left)
        except subprocess.TimeoutExpired:
            p.kill()
            p.wait()
            inconclusive.append("%s shard %d hit the %ds watchdog" % (sub["test"], sh, watchdog))
        logf.close()

    merged = {}
    for si, sh, sub, out, p, logf in procs:
        name = sub["test"]
        if sub.get("kind") == "fuzz":
            import re
            log = open(os.path.join(out, "log.txt"), errors="replace").read()
            execs = [int(x) for x in re.findall(r"execs: (\d+)", log)]
            inter = [int(x) for x in re.findall(r"total: (\d+)\)", log)]
            m = merged.setdefault(name, {"evaluations": 0, "nt": set(), "classes": {}, "excluded": {}, "samples": [],
                                         "rule": sub.get("rule", "native go fuzzing (coverage-guided); distinct non-trivial = inputs that reached new coverage"),
                                         "extra": {}, "assumptions": []})
            m["evaluations"] += max(execs) if execs else 0
            m["nt"].update("cov%d" % i for i in range(max(inter) if inter else 0))
            m["samples"] = [{"fuzz_target": name, "seed_corpus": "see f.Add calls in the target"}]
            if p.returncode not in (0, None):
                crashers = []
                for root, _, files in os.walk(os.path.join(out, "work")):
                    for fn in files:
                        crashers.append(os.path.join(root, fn))
                if crashers:
                    dst = save_found(pid, crashers[0], name)
                    violations.append((dst, "fuzz target %s failed; log tail: %s" % (name, log[-1500:])))
                elif any(("%s shard %d hit" % (name, sh)) in x for x in inconclusive):
                    pass
                else:
                    inconclusive.append("fuzz target %s exited %s without a saved input; log tail:\n%s" % (name, p.returncode, log[-1500:]))
            continue
        stats_files = [f for f in os.listdir(out) if f.startswith("stats-")]
        log_tail = open(os.path.join(out, "log.txt"), errors="replace").read()[-4000:]
        got_stats = False
        shard_viol = False
        for sf in stats_files:
            s = json.load(open(os.path.join(out, sf)))
            got_stats = True
            m = merged.setdefault(s["sub"], {"evaluations": 0, "nt": set(), "classes": {}, "excluded": {}, "samples": [],
                                             "rule": s.get("rule", ""), "extra": {}, "assumptions": []})
            m["evaluations"] += s["evaluations"]
            m["nt"].update(s["nt_hashes"])
            for k, v in s["classes"].items():
                m["classes"][k] = m["classes"].get(k, 0) + v
            for k, v in s["excluded"].items():
                m["excluded"][k] = m["excluded"].get(k, 0) + v
            if len(m["samples"]) < 4:
                m["samples"] += (s.get("samples") or [])[: 4 - len(m["samples"])]
            for k, v in (s.get("extra") or {}).items():
                if isinstance(v, (int, float)) and not isinstance(v, bool):
                    m["extra"][k] = m["extra"].get(k, 0) + v
            for a in s.get("assumptions") or []:
                if a not in m["assumptions"]:
                    m["assumptions"].append(a)
            for v in s.get("violations") or []:
                msg = v.get("msg", "")
                if "HARNESS-STALL" in msg:
                    # the harness's own scheduler gave up waiting (wall clock): not a verdict
                    inconclusive.append("%s shard %d: %s" % (name, sh, msg[:300]))
                    continue
                if "WARNING: DATA RACE" in open(os.path.join(out, "log.txt"), errors="replace").read() and "without a recorded case" in msg:
                    continue  # reported below from the race detector's own text
                shard_viol = True
                kf = matches_known(pid, msg)
                if kf is not None:
                    line = "KNOWN-FINDING: property=%s %s [%s]" % (pid, kf["what"], kf["id"])
                    if line not in known_lines:
                        known_lines.append(line)
                    continue
                if v.get("replay") and os.path.exists(v["replay"]):
                    dst = save_found(pid, v["replay"], name)
                else:
                    dst = os.path.join(found_dir(pid), "%s-noreplay.txt" % name)
                    open(dst, "w").write(msg + "\n" + log_tail)
                violations.append((dst, msg))
        full_log = open(os.path.join(out, "log.txt"), errors="replace").read()
        if "WARNING: DATA RACE" in full_log and not shard_viol:
            # the race detector's report is the evidence; schedules do not replay, so the
            # journaled case is given as the input that was running
            jfiles = [f for f in os.listdir(out) if f.startswith("journal-")]
            i = full_log.index("WARNING: DATA RACE")
            report = full_log[i:i + 6000]
            if jfiles:
                dst = save_found(pid, os.path.join(out, jfiles[0]), name + "-race")
            else:
                dst = os.path.join(found_dir(pid), "%s-race.txt" % name)
            open(dst + ".race-report.txt", "w").write(report)
            violations.append((dst, "race detector report (full text beside the replay file):\n" + report[:1800]))
            continue
        if p.returncode not in (0, None) and not shard_viol:
            if any(("%s shard %d hit" % (name, sh)) in x for x in inconclusive):
                continue
            # the process died (or failed) without recording a violation: look at the journal
            jfiles = [f for f in os.listdir(out) if f.startswith("journal-")]
            confirmed = False
            for jf in jfiles:
                jp = os.path.join(out, jf)
                st, msg = run_replay(binary, jp, tmp)
                if st in ("fail", "died"):
                    kf = matches_known(pid, msg)
                    if kf is not None:
                        line = "KNOWN-FINDING: property=%s %s [%s]" % (pid, kf["what"], kf["id"])
                        if line not in known_lines:
                            known_lines.append(line)
                    else:
                        dst = save_found(pid, jp, name + "-journal")
                        violations.append((dst, "process died; last journaled case reproduces: " + msg[-1500:]))
                    confirmed = True
            if not confirmed:
                inconclusive.append("%s shard %d exited %s without a reproducible case; log tail:\n%s" % (name, sh, p.returncode, log_tail[-1500:]))
        elif not got_stats and p.returncode == 0:
            inconclusive.append("%s shard %d wrote no statistics" % (name, sh))

    # ---- evidence
    evaluations = sum(m["evaluations"] for m in merged.values()) + replayed
    distinct = sum(len(m["nt"]) for m in merged.values())
    samples = []
    for subname, m in merged.items():
        for s in m["samples"][:2]:
            samples.append({"sub": subname, "case": s})
    rule = " || ".join("%s: %s" % (k, m["rule"]) for k, m in merged.items())
    assumptions = list(cfg.get("assumptions", []))
    for m in merged.values():
        for a in m["assumptions"]:
            if a not in assumptions:
                assumptions.append(a)
    ev = {
        "property_id": pid,
        "tier": tier_name,
        "seed": seed,
        "level": cfg["level"],
        "coverage": {
            "evaluations": evaluations,
            "distinct_nontrivial": distinct,
            "rule": rule,
            "samples": samples,
            "replay_tier_cases": replayed,
            "per_sub": {k: {"evaluations": m["evaluations"], "distinct_nontrivial": len(m["nt"]), "classes": m["classes"],
                            "excluded": m["excluded"], "extra": m["extra"]} for k, m in merged.items()},
            "known_findings_reported": known_lines,
            "inconclusive": inconclusive,
            "notes": notes,
        },
        "assumptions": assumptions,
        "wall_s": round(time.time() - t0, 2),
        "violations": len(violations),
    }
    if cfg.get("exhaustive_note"):
        ev["coverage"]["exhaustive_note"] = cfg["exhaustive_note"]
    evdir = os.environ.get("VERIF_EVIDENCE_DIR") or os.path.join(VERIF, "evidence")
    os.makedirs(evdir, exist_ok=True)
    with open(os.path.join(evdir, pid + ".json"), "w") as f:
        json.dump(ev, f, indent=1, sort_keys=True)
        f.write("\n")

    for line in known_lines:
        print(line)
    for n in notes:
        print("note:", n)
    print("%s %s: %d evaluations, %d distinct non-trivial, %d replayed, %.1fs" % (pid, tier_name, evaluations, distinct, replayed, time.time() - t0))
    for subname, m in merged.items():
        print("  %s: evals=%d nontrivial=%d classes=%s excluded=%s" % (subname, m["evaluations"], len(m["nt"]),
              json.dumps(m["classes"], sort_keys=True), json.dumps(m["excluded"], sort_keys=True)))
    if violations:
        seen = set()
        for path, msg in violations:
            if path in seen:
                continue
            seen.add(path)
            print("  violation: %s" % msg[:1500].replace("\n", "\n    "))
            print("VIOLATION property=%s replay=%s" % (pid, path))
        return 1
    if inconclusive:
        for x in inconclusive:
            print("INCONCLUSIVE:", x)
        return 2
    return 0


if __name__ == "__main__":
    sys.exit(main())
