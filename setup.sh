#!/bin/bash
# Offline setup: warm the Go build cache by building the check binary once.
set -e
cd "$(dirname "$(readlink -f "$0")")/harness"
export PATH=/root/go/pkg/mod/golang.org/toolchain@v0.0.1-go1.25.0.linux-amd64/bin:$PATH
export GOFLAGS=-mod=mod GOPROXY=off GOTOOLCHAIN=local GOSUMDB=off
T=$(mktemp -d -p /var/tmp verif-setup-XXXX)
trap 'rm -rf "$T"' EXIT
go test -c -tags verif -o "$T/checks.test" ./checks
echo "setup ok"
