package checks

// C03 — concurrent open and commit never hide or lose a committed version.
// Clients run on their own goroutines but only when a deterministic scheduler
// releases them: every client blocks in the fake object store before each
// request that can observe or change the version sets (LIST, and GET / PUT /
// DELETE under root/). The schedule is part of the generated case.

import (
	"fmt"
	"strings"
	"sync"
	"testing"
	"time"

	"pgregory.net/rapid"

	"verif/fakes3"
)

type SchedOp struct {
	Op  string `json:"op"` // ins upd del refresh roopen
	Key int    `json:"key,omitempty"`
	Val int    `json:"val,omitempty"`
}

type SchedCase struct {
	EPN      int         `json:"epn"`
	Scripts  [][]SchedOp `json:"scripts"`
	Schedule []int       `json:"schedule"`
}

func genSchedCase(t *rapid.T) SchedCase {
	c := SchedCase{EPN: rapid.SampledFrom([]int{2, 4096, 4096}).Draw(t, "epn")}
	n := rapid.IntRange(2, 3).Draw(t, "nclients")
	for ci := 0; ci < n; ci++ {
		var script []SchedOp
		m := rapid.IntRange(1, 6).Draw(t, "nops")
		for i := 0; i < m; i++ {
			op := SchedOp{Key: rapid.IntRange(1, 4).Draw(t, "key"), Val: rapid.IntRange(0, 3).Draw(t, "val")}
			switch r := rapid.IntRange(0, 9).Draw(t, "op"); {
			case r < 4:
				op.Op = "ins"
			case r < 5:
				op.Op = "upd"
			case r < 6:
				op.Op = "del"
			case r < 9:
				op.Op = "refresh"
			default:
				op.Op = "roopen"
			}
			script = append(script, op)
		}
		c.Scripts = append(c.Scripts, script)
	}
	c.Schedule = rapid.SliceOfN(rapid.IntRange(0, n-1), 0, 120).Draw(t, "schedule")
	return c
}

// scheduler: exactly one client runs at a time
type sched struct {
	mu      sync.Mutex
	cond    *sync.Cond
	state   []int // 0 running, 1 blocked, 2 done
	gates   []chan struct{}
	clock   int
	stalled bool
}

func newSched(n int) *sched {
	s := &sched{state: make([]int, n)}
	s.cond = sync.NewCond(&s.mu)
	for i := 0; i < n; i++ {
		s.gates = append(s.gates, make(chan struct{}))
	}
	return s
}

// yield blocks client c until the scheduler releases it.
func (s *sched) yield(c int) {
	s.mu.Lock()
	s.state[c] = 1
	s.cond.Broadcast()
	s.mu.Unlock()
	<-s.gates[c]
}

func (s *sched) finish(c int) {
	s.mu.Lock()
	s.state[c] = 2
	s.cond.Broadcast()
	s.mu.Unlock()
}

func (s *sched) tick() int {
	s.mu.Lock()
	defer s.mu.Unlock()
	s.clock++
	return s.clock
}

// run drives the clients according to the schedule until all are done.
func (s *sched) run(schedule []int) error {
	pos := 0
	for {
		// wait until nobody is running
		deadline := time.Now().Add(60 * time.Second)
		s.mu.Lock()
		for {
			running := false
			for _, st := range s.state {
				if st == 0 {
					running = true
				}
			}
			if !running {
				break
			}
			if time.Now().After(deadline) {
				s.stalled = true
				s.mu.Unlock()
				return fmt.Errorf("HARNESS-STALL: a client neither blocks nor finishes within 60 s")
			}
			waitCond(s.cond, 200*time.Millisecond)
		}
		var blocked []int
		for i, st := range s.state {
			if st == 1 {
				blocked = append(blocked, i)
			}
		}
		if len(blocked) == 0 {
			s.mu.Unlock()
			return nil
		}
		pick := blocked[0]
		if pos < len(schedule) {
			want := schedule[pos]
			pos++
			for _, b := range blocked {
				if b == want {
					pick = b
				}
			}
			if pick != want {
				// the wanted client has finished: rotate deterministically
				pick = blocked[want%len(blocked)]
			}
		}
		s.state[pick] = 0
		s.mu.Unlock()
		s.gates[pick] <- struct{}{}
	}
}

// waitCond waits on c (whose lock is held) for at most d.
func waitCond(c *sync.Cond, d time.Duration) {
	t := time.AfterFunc(d, c.Broadcast)
	c.Wait()
	t.Stop()
}

type commitRec struct {
	start, ack int
	state      MSet // the client's own rows after this commit
}

type openRec struct {
	client     int
	begin, end int
	rows       Rows
	what       string
}

func rootLevel(q *fakes3.Req) bool {
	return q.Op == "LIST" || strings.Contains(q.Key, "/root/")
}

func runSched(c SchedCase, o *Obs) error {
	n := len(c.Scripts)
	if n == 0 {
		return nil
	}
	bucket, store := newBucket(nil)
	defer fakes3.Unregister(bucket)
	sc := newSched(n)
	clientOf := func(name string) int {
		var i int
		if _, err := fmt.Sscanf(name, "verif://s%d", &i); err != nil {
			return -1
		}
		return i
	}
	store.Intercept = func(q *fakes3.Req) error {
		ci := clientOf(q.Client)
		if ci < 0 || ci >= n || !rootLevel(q) {
			return nil
		}
		sc.yield(ci)
		return nil
	}
	var mu sync.Mutex
	commits := make([][]commitRec, n)
	var opens []openRec
	errs := make([]error, n)
	ownKey := func(ci, k int) Val { return vInt(int64(100*ci + k)) }

	var wg sync.WaitGroup
	for ci := 0; ci < n; ci++ {
		wg.Add(1)
		go func(ci int) {
			defer wg.Done()
			defer sc.finish(ci)
			defer func() {
				if r := recover(); r != nil {
					errs[ci] = fmt.Errorf("client %d: PANIC: %v", ci, r)
				}
			}()
			sc.yield(ci) // start gate
			conn := newConn()
			defer conn.Close()
			tn := uniqName("sc")
			spec := TableSpec{Name: tn, Columns: mwCols, Bucket: bucket, Client: fmt.Sprintf("s%d", ci), EPN: c.EPN}
			own := MSet{}
			wt := int64(0)
			recordOpen := func(begin int, conn *Conn, table, what string) error {
				rows, err := conn.Dump(table)
				if err != nil {
					return fmt.Errorf("client %d: %s: scan: %v", ci, what, err)
				}
				end := sc.tick()
				mu.Lock()
				opens = append(opens, openRec{ci, begin, end, rows, what})
				mu.Unlock()
				return nil
			}
			begin := sc.tick()
			if err := conn.Create(spec); err != nil {
				errs[ci] = fmt.Errorf("client %d: open: %v", ci, err)
				return
			}
			if err := recordOpen(begin, conn, tn, "initial open"); err != nil {
				errs[ci] = err
				return
			}
			for i, op := range c.Scripts[ci] {
				where := fmt.Sprintf("client %d op %d (%s)", ci, i, op.Op)
				switch op.Op {
				case "ins", "upd", "del":
					var st Stmt
					key := ownKey(ci, op.Key)
					switch op.Op {
					case "ins":
						st = Stmt{Kind: "ins", Keys: []Val{key}, Cols: []string{"a"}, Vals: [][]Val{{vInt(int64(op.Val))}}}
					case "upd":
						st = Stmt{Kind: "upd", Keys: []Val{key}, Cols: []string{"b"}, Vals: [][]Val{{vInt(int64(op.Val))}}}
					default:
						st = Stmt{Kind: "del", Keys: []Val{key}}
					}
					wt += 5
					st.T = int64(ci*10000) + wt
					if err := conn.SetWriteTime(baseTime + st.T); err != nil {
						errs[ci] = err
						return
					}
					outcome, added, _ := own.Exec(st, wideCols)
					start := sc.tick()
					q, args := st.SQL(tn, "k")
					err := conn.Exec(q, args...)
					if cls := errClass(err); cls != outcome {
						errs[ci] = fmt.Errorf("%s: outcome %s (%v), expected %s", where, cls, err, outcome)
						return
					}
					for _, a := range added {
						own.Add(a)
					}
					ack := sc.tick()
					if len(added) > 0 {
						mu.Lock()
						commits[ci] = append(commits[ci], commitRec{start, ack, own.Clone()})
						mu.Unlock()
					}
				case "refresh":
					begin := sc.tick()
					if err := conn.Refresh(tn); err != nil {
						errs[ci] = fmt.Errorf("%s: %v", where, err)
						return
					}
					if err := recordOpen(begin, conn, tn, where); err != nil {
						errs[ci] = err
						return
					}
				case "roopen":
					rc := newConn()
					rs := spec
					rs.Name, rs.ReadOnly = uniqName("scr"), true
					begin := sc.tick()
					if err := rc.Create(rs); err != nil {
						rc.Close()
						errs[ci] = fmt.Errorf("%s: read-only open: %v", where, err)
						return
					}
					err := recordOpen(begin, rc, rs.Name, where+" (read-only)")
					rc.Close()
					if err != nil {
						errs[ci] = err
						return
					}
				}
			}
		}(ci)
	}
	serr := sc.run(c.Schedule)
	if serr != nil {
		return serr
	}
	wg.Wait()
	store.Intercept = nil
	for _, e := range errs {
		if e != nil {
			return e
		}
	}

	// ---- history oracle ----
	split := func(rows Rows) map[int]Rows {
		out := map[int]Rows{}
		for _, r := range rows {
			var k int
			fmt.Sscanf(r[0], "I:%d", &k)
			out[k/100] = append(out[k/100], r)
		}
		return out
	}
	for _, op := range opens {
		per := split(op.rows)
		for cj := 0; cj < n; cj++ {
			lo, hi := 0, 0
			for _, cm := range commits[cj] {
				if cm.ack < op.begin {
					lo++
				}
				if cm.start < op.end {
					hi++
				}
			}
			if cj == op.client {
				lo = hi // its own commits are all complete
			}
			got := per[cj].Sorted()
			ok := false
			for j := lo; j <= hi; j++ {
				want := Rows{}
				if j > 0 {
					want = commits[cj][j-1].state.Rows(wideCols)
				}
				if got.Equal(want) {
					ok = true
					break
				}
			}
			if !ok {
				var states []string
				for j := lo; j <= hi; j++ {
					if j == 0 {
						states = append(states, "(no rows)")
					} else {
						states = append(states, strings.ReplaceAll(commits[cj][j-1].state.Rows(wideCols).String(), "\n", "; "))
					}
				}
				return fmt.Errorf("client %d, %s (logical time %d..%d): it sees rows of client %d that no committed state explains: %d of client %d's commits were acknowledged before this open began, so its rows must be one of the states %d..%d.\nseen:\n%sallowed states:\n%s",
					op.client, op.what, op.begin, op.end, cj, lo, cj, lo, hi, got, strings.Join(states, "\n"))
			}
		}
	}
	// non-triviality: some open's LIST and later root GET are separated by another client's root mutation
	log := store.Log()
	for i, q := range log {
		if q.Op != "LIST" || !strings.HasSuffix(q.Key, "root/current/") {
			continue
		}
		other := false
		for _, q2 := range log[i+1:] {
			if q2.Client == q.Client {
				if q2.Op == "GET" && strings.Contains(q2.Key, "/root/") && other {
					o.NonTrivial = true
					o.Class("list-get-window-crossed-by-another-client")
				}
				if q2.Op != "GET" {
					break
				}
			} else if q2.Mutating() && strings.Contains(q2.Key, "/root/") {
				other = true
			}
		}
	}
	// everybody done: a fresh open contains every acknowledged commit
	union := MSet{}
	for cj := 0; cj < n; cj++ {
		if len(commits[cj]) > 0 {
			union.Union(commits[cj][len(commits[cj])-1].state)
		}
	}
	conn := newConn()
	defer conn.Close()
	fs := TableSpec{Name: uniqName("scf"), Columns: mwCols, Bucket: bucket, Client: "final", EPN: c.EPN}
	if err := conn.Create(fs); err != nil {
		return fmt.Errorf("final open: %v", err)
	}
	got, err := conn.Dump(fs.Name)
	if err != nil {
		return fmt.Errorf("final scan: %v", err)
	}
	if want := union.Rows(wideCols); !got.Equal(want) {
		return fmt.Errorf("after all clients finished a fresh open does not contain every acknowledged commit.\ns3db:\n%sacknowledged:\n%s", got, want)
	}
	o.ClassN("opens-checked", len(opens))
	return nil
}

func init() { register("TestC03_Sched", runSched) }

func TestC03_Sched(t *testing.T) {
	st := newStats(t, "C03", "TestC03_Sched", "2-3 clients, each a script of 1-6 operations on its own key range (INSERT/UPDATE/DELETE in autocommit mode with explicit write times, s3db_refresh, read-only open), all on one bucket prefix, plus a generated schedule of up to 120 choices: every client blocks in the fake store before each LIST and each GET/PUT/DELETE under root/ and runs only when the scheduler releases it, so exactly one client runs at a time and the interleaving of version-level requests is the generated one; for every completed open or refresh the rows of every client must equal one of that client's committed states j with lo<=j<=hi (lo = commits acknowledged before the open began, hi = commits started before it ended; the opener's own commits all count); at the end a fresh open must equal the union of all acknowledged commits; non-trivial = a schedule in which an open's LIST and a later GET of a version are separated by another client's PUT/DELETE under root/")
	st.Assume = append(st.Assume,
		"node-object requests pass without yielding (content-addressed, never deleted in these scripts, commute)",
		"concurrent vacuum is not part of the scripts")
	checkRapid(t, st, genSchedCase, runSched)
}
