package checks

// C03 — concurrent open and commit never hide or lose a committed version.
// Clients run on their own goroutines but only when a deterministic scheduler
// releases them: every client blocks in the fake object store before each
// request that can observe or change the version sets (LIST, and GET / PUT /
// DELETE under root/). The schedule is part of the generated case.

import (
	"fmt"
	"os"
	"strings"
	"sync"
	"testing"
	"time"

	"pgregory.net/rapid"

	"verif/fakes3"
)

type SchedOp struct {
	Op  string `json:"op"` // ins upd del refresh roopen
	Key int    `json:"key,omitempty"`
	Val int    `json:"val,omitempty"`
}

type SchedCase struct {
	EPN      int          `json:"epn"`
	Scripts  [][]SchedOp  `json:"scripts"`
	Schedule []int        `json:"schedule"`
	Delays   []SchedDelay `json:"delays,omitempty"`
	// Indexed: schedule entries are indices into the sorted list of blocked clients
	Indexed bool `json:"indexed,omitempty"`
}

// SchedDelay: delayed visibility of tree nodes. The client's GETs of node objects that
// another client stored are counted; those numbered Nth..Nth+Len-1 answer "no such
// object" although the PUT was acknowledged (the situation upstream's TestDelayedNode
// models). Afterwards the objects are visible again.
type SchedDelay struct {
	Client int `json:"client"`
	Nth    int `json:"nth"`
	Len    int `json:"len"`
	// Kind "error": the GETs fail with a transport error instead of answering "no such
	// object". A version may be skipped when its nodes are not visible yet, never because a
	// request failed: an open hit by such a window fails, or succeeds under the full oracle.
	// Kind "put-error": not GETs but the client's own PUTs of node objects numbered
	// Nth..Nth+Len-1 fail with a transport error: the commit in progress fails, the statement
	// reports an error and has no effect; the client goes on, and whatever it commits
	// afterwards (and committed before) must be in every later open.
	Kind string `json:"kind,omitempty"`
}

func genSchedCase(t *rapid.T) SchedCase {
	c := SchedCase{EPN: rapid.SampledFrom([]int{2, 4096, 4096}).Draw(t, "epn")}
	n := rapid.IntRange(2, 3).Draw(t, "nclients")
	for ci := 0; ci < n; ci++ {
		var script []SchedOp
		m := rapid.IntRange(1, 6).Draw(t, "nops")
		for i := 0; i < m; i++ {
			op := SchedOp{Key: rapid.IntRange(1, 4).Draw(t, "key"), Val: rapid.IntRange(0, 3).Draw(t, "val")}
			switch r := rapid.IntRange(0, 9).Draw(t, "op"); {
			case r < 4:
				op.Op = "ins"
			case r < 5:
				op.Op = "upd"
			case r < 6:
				op.Op = "del"
			case r < 9:
				op.Op = "refresh"
			default:
				op.Op = "roopen"
			}
			script = append(script, op)
		}
		c.Scripts = append(c.Scripts, script)
	}
	c.Schedule = rapid.SliceOfN(rapid.IntRange(0, n-1), 0, 120).Draw(t, "schedule")
	if rapid.IntRange(0, 2).Draw(t, "withDelays") == 0 {
		nd := rapid.IntRange(1, 3).Draw(t, "ndelays")
		for i := 0; i < nd; i++ {
			c.Delays = append(c.Delays, SchedDelay{Client: rapid.IntRange(0, n-1).Draw(t, "dclient"),
				Nth: rapid.IntRange(0, 5).Draw(t, "dnth"), Len: rapid.IntRange(1, 2).Draw(t, "dlen"),
				Kind: rapid.SampledFrom([]string{"", "", "error", "put-error"}).Draw(t, "dkind")})
			if c.EPN != 4096 && c.Delays[i].Kind == "put-error" {
				// K4: on multi-node trees the rollback after a failed commit runs into the
				// dependency's in-place mutation of shared nodes (confirmed with the patched
				// dependency); failed commits are followed up on single-node trees only
				c.Delays[i].Kind = "error"
			}
		}
	}
	return c
}

// scheduler: exactly one client runs at a time
type sched struct {
	mu      sync.Mutex
	cond    *sync.Cond
	state   []int // 0 running, 1 blocked, 2 done
	gates   []chan struct{}
	clock   int
	stalled bool
	// indexed: a schedule entry is an index into the sorted list of blocked clients (used
	// by the exhaustive enumeration); alts records how many clients were blocked at every
	// decision, chosen the index that was taken
	indexed bool
	alts    []int
	chosen  []int
}

func newSched(n int) *sched {
	s := &sched{state: make([]int, n)}
	s.cond = sync.NewCond(&s.mu)
	for i := 0; i < n; i++ {
		s.gates = append(s.gates, make(chan struct{}))
	}
	return s
}

// yield blocks client c until the scheduler releases it.
func (s *sched) yield(c int) {
	s.mu.Lock()
	s.state[c] = 1
	s.cond.Broadcast()
	s.mu.Unlock()
	<-s.gates[c]
}

func (s *sched) finish(c int) {
	s.mu.Lock()
	s.state[c] = 2
	s.cond.Broadcast()
	s.mu.Unlock()
}

func (s *sched) tick() int {
	s.mu.Lock()
	defer s.mu.Unlock()
	s.clock++
	return s.clock
}

// run drives the clients according to the schedule until all are done.
func (s *sched) run(schedule []int) error {
	pos := 0
	for {
		// wait until nobody is running
		deadline := time.Now().Add(60 * time.Second)
		s.mu.Lock()
		for {
			running := false
			for _, st := range s.state {
				if st == 0 {
					running = true
				}
			}
			if !running {
				break
			}
			if time.Now().After(deadline) {
				s.stalled = true
				s.mu.Unlock()
				return fmt.Errorf("HARNESS-STALL: a client neither blocks nor finishes within 60 s")
			}
			waitCond(s.cond, 200*time.Millisecond)
		}
		var blocked []int
		for i, st := range s.state {
			if st == 1 {
				blocked = append(blocked, i)
			}
		}
		if len(blocked) == 0 {
			s.mu.Unlock()
			return nil
		}
		pick := blocked[0]
		if s.indexed {
			idx := 0
			if pos < len(schedule) {
				idx = schedule[pos] % len(blocked)
				pos++
			}
			pick = blocked[idx]
			s.alts = append(s.alts, len(blocked))
			s.chosen = append(s.chosen, idx)
		} else if pos < len(schedule) {
			want := schedule[pos]
			pos++
			for _, b := range blocked {
				if b == want {
					pick = b
				}
			}
			if pick != want {
				// the wanted client has finished: rotate deterministically
				pick = blocked[want%len(blocked)]
			}
		}
		s.state[pick] = 0
		s.mu.Unlock()
		s.gates[pick] <- struct{}{}
	}
}

// waitCond waits on c (whose lock is held) for at most d.
func waitCond(c *sync.Cond, d time.Duration) {
	t := time.AfterFunc(d, c.Broadcast)
	c.Wait()
	t.Stop()
}

type commitRec struct {
	start, ack int
	state      MSet // the client's own rows after this commit
}

type openRec struct {
	client     int
	begin, end int
	rows       Rows
	what       string
	delayed    bool // some node of another client's version was not visible during it
}

func rootLevel(q *fakes3.Req) bool {
	return q.Op == "LIST" || strings.Contains(q.Key, "/root/")
}

func runSched(c SchedCase, o *Obs) error {
	_, err := runSchedAlts(c, o)
	return err
}

// runSchedAlts runs one schedule; it also returns, for indexed schedules, the number of
// alternatives that existed at every scheduling decision.
func runSchedAlts(c SchedCase, o *Obs) ([]int, error) {
	sc := newSched(len(c.Scripts))
	sc.indexed = c.Indexed
	err := runSchedOn(c, o, sc)
	return sc.alts, err
}

func runSchedOn(c SchedCase, o *Obs, sc *sched) error {
	n := len(c.Scripts)
	if n == 0 {
		return nil
	}
	bucket, store := newBucket(nil)
	defer fakes3.Unregister(bucket)
	clientOf := func(name string) int {
		var i int
		if _, err := fmt.Sscanf(name, "verif://s%d", &i); err != nil {
			return -1
		}
		return i
	}
	var mu sync.Mutex
	creator := map[string]int{} // node object -> client that stored it first
	foreignGets := make([]int, n)
	hits := make([]int, n)    // delayed answers handed to each client so far
	errHits := make([]int, n) // transport errors handed to each client so far
	ownPuts := make([]int, n) // node PUTs issued by each client so far
	putHits := make([]int, n) // of which failed by a "put-error" window
	store.Intercept = func(q *fakes3.Req) error {
		ci := clientOf(q.Client)
		if ci < 0 || ci >= n {
			return nil
		}
		if !rootLevel(q) {
			if len(c.Delays) == 0 || !strings.Contains(q.Key, "/node/") {
				return nil
			}
			mu.Lock()
			defer mu.Unlock()
			switch q.Op {
			case "PUT":
				k := ownPuts[ci]
				ownPuts[ci]++
				for _, d := range c.Delays {
					if d.Kind == "put-error" && c.EPN == 4096 && d.Client == ci && k >= d.Nth && k < d.Nth+d.Len {
						putHits[ci]++
						return fakes3.ErrInjected
					}
				}
				if _, ok := creator[q.Key]; !ok {
					creator[q.Key] = ci
				}
			case "GET":
				if cr, ok := creator[q.Key]; ok && cr != ci {
					k := foreignGets[ci]
					foreignGets[ci]++
					for _, d := range c.Delays {
						if d.Client == ci && k >= d.Nth && k < d.Nth+d.Len {
							if d.Kind == "put-error" {
								continue
							}
							if d.Kind == "error" {
								errHits[ci]++
								return fakes3.ErrInjected
							}
							hits[ci]++
							return fakes3.ErrNoSuchKey()
						}
					}
				}
			}
			return nil
		}
		sc.yield(ci)
		return nil
	}
	hitsOf := func(ci int) int {
		mu.Lock()
		defer mu.Unlock()
		return hits[ci] + errHits[ci] + putHits[ci] // an operation hit by any kind may fail
	}
	getHitsOf := func(ci int) int {
		mu.Lock()
		defer mu.Unlock()
		return hits[ci] + errHits[ci]
	}
	uncertain := make([]MSet, n) // state after a write that failed while nodes were delayed
	commits := make([][]commitRec, n)
	var opens []openRec
	errs := make([]error, n)
	ownKey := func(ci, k int) Val { return vInt(int64(100*ci + k)) }
	ownCell := func(ci int, cell string) bool {
		var k int
		if _, err := fmt.Sscanf(cell, "I:%d", &k); err != nil {
			return false
		}
		return k >= 100*ci && k < 100*ci+100
	}

	var wg sync.WaitGroup
	for ci := 0; ci < n; ci++ {
		wg.Add(1)
		go func(ci int) {
			defer wg.Done()
			defer sc.finish(ci)
			defer func() {
				if r := recover(); r != nil {
					errs[ci] = fmt.Errorf("client %d: PANIC: %v", ci, r)
				}
			}()
			sc.yield(ci) // start gate
			conn := newConn()
			defer conn.Close()
			tn := uniqName("sc")
			spec := TableSpec{Name: tn, Columns: mwCols, Bucket: bucket, Client: fmt.Sprintf("s%d", ci), EPN: c.EPN}
			own := MSet{}  // every operation this client committed
			view := MSet{} // those of them its handle currently sees
			wconn := conn
			regressed := false
			wt := int64(0)
			h0, d0 := 0, 0 // baselines of (all hits, "no such object" hits) at the start of the operation
			// tolerated: an operation during which a node was not visible may fail; the
			// client then stops (what it acknowledged before stays required)
			tolerated := func() bool {
				if hitsOf(ci) > h0 {
					o.Class("delayed-node-operation-failed")
					return true
				}
				return false
			}
			recordOpen := func(begin int, conn *Conn, table, what string) error {
				rows, err := conn.Dump(table)
				if err != nil {
					return fmt.Errorf("client %d: %s: scan: %v", ci, what, err)
				}
				end := sc.tick()
				mu.Lock()
				defer mu.Unlock()
				opens = append(opens, openRec{ci, begin, end, rows, what, hits[ci] > d0})
				if conn == wconn {
					view = own.Clone()
					regressed = false
				}
				if errHits[ci] > 0 && hits[ci] == d0 && hits[ci]+errHits[ci] > h0 {
					o.Class("open-succeeded-despite-transport-error-on-a-node")
				}
				if hits[ci] > d0 {
					o.Class("delayed-node-open-succeeded")
					// a version whose nodes were not visible was skipped; when it is the one
					// this client's own earlier commits were merged into, the handle is back at
					// an older state of its own rows: find which
					if conn == wconn {
						var mine Rows
						for _, r := range rows {
							var k int
							fmt.Sscanf(r[0], "I:%d", &k)
							if k/100 == ci {
								mine = append(mine, r)
							}
						}
						if !mine.Sorted().Equal(own.Rows(wideCols)) {
							// which of its operations the handle still sees is not known to the
							// model: until its next undisturbed refresh the client only inserts
							// keys it never used (see the statement branch)
							o.Class("delayed-node-handle-regressed")
							regressed = true
						}
					}
				}
				return nil
			}
			begin := sc.tick()
			if err := conn.Create(spec); err != nil {
				if tolerated() {
					return
				}
				errs[ci] = fmt.Errorf("client %d: open: %v", ci, err)
				return
			}
			if err := recordOpen(begin, conn, tn, "initial open"); err != nil {
				if tolerated() {
					return
				}
				errs[ci] = err
				return
			}
			for i, op := range c.Scripts[ci] {
				where := fmt.Sprintf("client %d op %d (%s)", ci, i, op.Op)
				h0 = hitsOf(ci)
				g0 := getHitsOf(ci)
				mu.Lock()
				d0 = hits[ci]
				mu.Unlock()
				switch op.Op {
				case "ins", "upd", "del":
					var st Stmt
					key := ownKey(ci, op.Key)
					if regressed {
						if op.Op != "ins" {
							continue
						}
						key = ownKey(ci, 10+i)
					}
					switch op.Op {
					case "ins":
						st = Stmt{Kind: "ins", Keys: []Val{key}, Cols: []string{"a"}, Vals: [][]Val{{vInt(int64(op.Val))}}}
					case "upd":
						st = Stmt{Kind: "upd", Keys: []Val{key}, Cols: []string{"b"}, Vals: [][]Val{{vInt(int64(op.Val))}}}
					default:
						st = Stmt{Kind: "del", Keys: []Val{key}}
					}
					wt += 5
					st.T = int64(ci*10000) + wt
					if err := conn.SetWriteTime(baseTime + st.T); err != nil {
						errs[ci] = err
						return
					}
					outcome, added, _ := view.Exec(st, wideCols)
					start := sc.tick()
					q, args := st.SQL(tn, "k")
					mu.Lock()
					p0 := putHits[ci]
					mu.Unlock()
					err := conn.Exec(q, args...)
					mu.Lock()
					putFailed := putHits[ci] > p0
					mu.Unlock()
					if putFailed && getHitsOf(ci) == g0 {
						// a node PUT of this statement's commit failed: the statement must report
						// the error and have no effect; the client goes on
						if errClass(err) != "error" {
							errs[ci] = fmt.Errorf("%s: a node PUT of its commit failed with a transport error, yet the statement reports %v", where, err)
							return
						}
						o.Class("commit-failed-by-put-error-client-continues")
						got, derr := conn.Dump(tn)
						if derr != nil {
							errs[ci] = fmt.Errorf("%s: after the failed commit the connection cannot read the table: %v", where, derr)
							return
						}
						var mine Rows
						for _, r := range got {
							if ownCell(ci, r[0]) {
								mine = append(mine, r)
							}
						}
						if want := own.Rows(wideCols); !regressed && !mine.Sorted().Equal(want) {
							errs[ci] = fmt.Errorf("%s: after its commit failed the connection shows own rows\n%sbut it has committed\n%s", where, mine.Sorted(), want)
							return
						}
						continue
					}
					if cls := errClass(err); cls != outcome && tolerated() {
						if len(added) > 0 {
							u := own.Clone()
							for _, a := range added {
								u.Add(a)
							}
							mu.Lock()
							uncertain[ci] = u
							mu.Unlock()
						}
						return
					}
					if cls := errClass(err); cls != outcome {
						errs[ci] = fmt.Errorf("%s: outcome %s (%v), expected %s", where, cls, err, outcome)
						return
					}
					for _, a := range added {
						own.Add(a)
						view.Add(a)
					}
					ack := sc.tick()
					if len(added) > 0 {
						mu.Lock()
						commits[ci] = append(commits[ci], commitRec{start, ack, own.Clone()})
						mu.Unlock()
					}
				case "refresh":
					begin := sc.tick()
					if err := conn.Refresh(tn); err != nil {
						if tolerated() {
							return
						}
						errs[ci] = fmt.Errorf("%s: %v", where, err)
						return
					}
					if err := recordOpen(begin, conn, tn, where); err != nil {
						if tolerated() {
							return
						}
						errs[ci] = err
						return
					}
				case "roopen":
					rc := newConn()
					rs := spec
					rs.Name, rs.ReadOnly = uniqName("scr"), true
					begin := sc.tick()
					if err := rc.Create(rs); err != nil {
						rc.Close()
						if tolerated() {
							return
						}
						errs[ci] = fmt.Errorf("%s: read-only open: %v", where, err)
						return
					}
					err := recordOpen(begin, rc, rs.Name, where+" (read-only)")
					rc.Close()
					if err != nil {
						if tolerated() {
							return
						}
						errs[ci] = err
						return
					}
				}
			}
		}(ci)
	}
	serr := sc.run(c.Schedule)
	if serr != nil {
		return serr
	}
	wg.Wait()
	store.Intercept = nil
	if os.Getenv("VERIF_TRACE") != "" {
		for _, q := range store.Log() {
			fmt.Fprintf(os.Stderr, "  %4d %s miss=%v\n", q.Seq, q.String(), q.Miss)
		}
	}
	for _, e := range errs {
		if e != nil {
			return e
		}
	}

	// ---- history oracle ----
	split := func(rows Rows) map[int]Rows {
		out := map[int]Rows{}
		for _, r := range rows {
			var k int
			fmt.Sscanf(r[0], "I:%d", &k)
			out[k/100] = append(out[k/100], r)
		}
		return out
	}
	for _, op := range opens {
		if op.delayed {
			// a version whose nodes are not visible yet is skipped, and with it whatever was
			// merged into it (also the opener's own earlier commits), so what such an open
			// shows need not be a committed state of any client. Nothing is lost by it: later
			// undisturbed opens are held to the full oracle, and so is the final open below
			continue
		}
		per := split(op.rows)
		for cj := 0; cj < n; cj++ {
			lo, hi := 0, 0
			for _, cm := range commits[cj] {
				if cm.ack < op.begin {
					lo++
				}
				if cm.start < op.end {
					hi++
				}
			}
			if cj == op.client {
				lo = hi // its own commits are all complete
			}
			got := per[cj].Sorted()
			ok := false
			for j := lo; j <= hi; j++ {
				want := Rows{}
				if j > 0 {
					want = commits[cj][j-1].state.Rows(wideCols)
				}
				if got.Equal(want) {
					ok = true
					break
				}
			}
			if !ok {
				var states []string
				for j := lo; j <= hi; j++ {
					if j == 0 {
						states = append(states, "(no rows)")
					} else {
						states = append(states, strings.ReplaceAll(commits[cj][j-1].state.Rows(wideCols).String(), "\n", "; "))
					}
				}
				return fmt.Errorf("client %d, %s (logical time %d..%d): it sees rows of client %d that no committed state explains: %d of client %d's commits were acknowledged before this open began, so its rows must be one of the states %d..%d.\nseen:\n%sallowed states:\n%s",
					op.client, op.what, op.begin, op.end, cj, lo, cj, lo, hi, got, strings.Join(states, "\n"))
			}
		}
	}
	// non-triviality: some open's LIST and later root GET are separated by another client's root mutation
	log := store.Log()
	for i, q := range log {
		if q.Op != "LIST" || !strings.HasSuffix(q.Key, "root/current/") {
			continue
		}
		other := false
		for _, q2 := range log[i+1:] {
			if q2.Client == q.Client {
				if q2.Op == "GET" && strings.Contains(q2.Key, "/root/") && other {
					o.NonTrivial = true
					o.Class("list-get-window-crossed-by-another-client")
				}
				if q2.Op != "GET" {
					break
				}
			} else if q2.Mutating() && strings.Contains(q2.Key, "/root/") {
				other = true
			}
		}
	}
	// everybody done: a fresh open contains every acknowledged commit
	union := MSet{}
	for cj := 0; cj < n; cj++ {
		if len(commits[cj]) > 0 {
			union.Union(commits[cj][len(commits[cj])-1].state)
		}
	}
	anyHit := false
	for cj := 0; cj < n; cj++ {
		anyHit = anyHit || hits[cj] > 0
	}
	if anyHit {
		o.Class("delayed-node")
	}
	conn := newConn()
	defer conn.Close()
	fs := TableSpec{Name: uniqName("scf"), Columns: mwCols, Bucket: bucket, Client: "final", EPN: c.EPN}
	if err := conn.Create(fs); err != nil {
		return fmt.Errorf("final open: %v", err)
	}
	got, err := conn.Dump(fs.Name)
	if err != nil {
		return fmt.Errorf("final scan: %v", err)
	}
	// (a write that failed while nodes were delayed may or may not have been stored)
	okFinal := got.Equal(union.Rows(wideCols))
	for mask := 1; !okFinal && mask < 1<<n; mask++ {
		alt, usable := MSet{}, true
		for cj := 0; cj < n; cj++ {
			switch {
			case mask&(1<<cj) != 0 && uncertain[cj] == nil:
				usable = false
			case mask&(1<<cj) != 0:
				alt.Union(uncertain[cj])
			case len(commits[cj]) > 0:
				alt.Union(commits[cj][len(commits[cj])-1].state)
			}
		}
		okFinal = usable && got.Equal(alt.Rows(wideCols))
	}
	if want := union.Rows(wideCols); !okFinal {
		return fmt.Errorf("after all clients finished a fresh open does not contain every acknowledged commit.\ns3db:\n%sacknowledged:\n%s", got, want)
	}
	o.ClassN("opens-checked", len(opens))
	return nil
}

func init() { register("TestC03_Sched", runSched) }

func TestC03_Sched(t *testing.T) {
	st := newStats(t, "C03", "TestC03_Sched", "2-3 clients, each a script of 1-6 operations on its own key range (INSERT/UPDATE/DELETE in autocommit mode with explicit write times, s3db_refresh, read-only open), all on one bucket prefix, plus a generated schedule of up to 120 choices: every client blocks in the fake store before each LIST and each GET/PUT/DELETE under root/ and runs only when the scheduler releases it, so exactly one client runs at a time and the interleaving of version-level requests is the generated one; for every completed open or refresh the rows of every client must equal one of that client's committed states j with lo<=j<=hi (lo = commits acknowledged before the open began, hi = commits started before it ended; the opener's own commits all count); at the end a fresh open must equal the union of all acknowledged commits; in a third of the cases 1-3 generated windows of delayed visibility are added (a client's GETs number n..n+len-1 of tree nodes stored by another client answer 'no such object' although the PUT was acknowledged): an operation hit by one may fail (the client stops) or skip the version, opens hit by one are exempt from the per-open oracle (a third of the windows hand out transport errors instead: an open hit by those fails or is held to the full oracle), a handle that lost sight of its own rows only inserts unused keys until its next undisturbed refresh, and all undisturbed opens and the final open keep the full oracle; on single-node trees a window may instead make the client's own node PUTs fail: its commit fails, the statement must report an error and have no effect, the client goes on, and everything it commits before and after must be in every later open; non-trivial = a schedule in which an open's LIST and a later GET of a version are separated by another client's PUT/DELETE under root/")
	st.Assume = append(st.Assume,
		"node-object requests pass without yielding (content-addressed, never deleted in these scripts, commute)",
		"concurrent vacuum is not part of the scripts")
	checkRapid(t, st, genSchedCase, runSched)
}

// ---------------------------------------------------------------------------
// exhaustive mode: ALL interleavings of the version-level requests of a small scenario

type SchedScenario struct {
	EPN     int         `json:"epn"`
	Scripts [][]SchedOp `json:"scripts"`
	Cap     int         `json:"cap"` // stop after this many interleavings (then the scenario is not exhausted)
}

func genSchedScenario(t *rapid.T) SchedScenario {
	c := SchedScenario{EPN: rapid.SampledFrom([]int{2, 4096}).Draw(t, "epn"), Cap: 2500}
	ops := []string{"ins", "ins", "del", "refresh", "roopen"}
	for ci := 0; ci < 2; ci++ {
		var script []SchedOp
		m := rapid.IntRange(1, 2).Draw(t, "nops")
		if ci == 0 {
			// the committing writer always writes at least once
			script = append(script, SchedOp{Op: "ins", Key: 1, Val: 1})
			m--
		}
		for i := 0; i < m; i++ {
			script = append(script, SchedOp{Op: rapid.SampledFrom(ops).Draw(t, "op"), Key: rapid.IntRange(1, 2).Draw(t, "key"), Val: rapid.IntRange(0, 1).Draw(t, "val")})
		}
		c.Scripts = append(c.Scripts, script)
	}
	return c
}

func runSchedExhaustive(c SchedScenario, o *Obs) error {
	if len(c.Scripts) == 0 {
		return nil
	}
	schedule := []int{}
	explored := 0
	for {
		sub := &Obs{Classes: map[string]int{}, Excluded: map[string]int{}}
		alts, err := runSchedAlts(SchedCase{EPN: c.EPN, Scripts: c.Scripts, Schedule: schedule, Indexed: true}, sub)
		explored++
		if err != nil {
			return fmt.Errorf("interleaving %d (indexed schedule %v): %v", explored, schedule, err)
		}
		if sub.NonTrivial {
			o.Class("interleaving-with-list-get-window-crossed")
		}
		// next interleaving in depth-first order: the choices actually taken, with the last
		// one that has an untried alternative advanced and everything after it dropped
		taken := make([]int, len(alts))
		copy(taken, schedule)
		i := len(alts) - 1
		for ; i >= 0; i-- {
			if taken[i]+1 < alts[i] {
				break
			}
		}
		if i < 0 {
			o.Class("scenario-exhausted")
			o.NonTrivial = true
			break
		}
		schedule = append(append([]int{}, taken[:i]...), taken[i]+1)
		if explored >= c.Cap && c.Cap > 0 {
			o.Class("scenario-capped")
			break
		}
	}
	o.ClassN("interleavings-explored", explored)
	return nil
}

func init() { register("TestC03_Exhaustive", runSchedExhaustive) }

func TestC03_Exhaustive(t *testing.T) {
	st := newStats(t, "C03", "TestC03_Exhaustive", "generated small scenarios (2 clients: a writer with 1-2 operations starting with an INSERT, and a second client with 1-2 operations out of INSERT/DELETE/refresh/read-only open; entries_per_node 2 or 4096); for each scenario EVERY interleaving of the version-level requests (LIST and GET/PUT/DELETE under root/) is executed, depth-first with re-execution (the run reports how many clients were blocked at each decision; the enumerator advances the last decision that has an untried alternative), each under the history oracle of TestC03_Sched; a scenario is exhausted when no decision has an untried alternative (cap 2500 interleavings, capped scenarios are counted); non-trivial = an exhausted scenario")
	st.Assume = append(st.Assume, "node-object requests pass without yielding (as in TestC03_Sched)")
	checkRapid(t, st, genSchedScenario, runSchedExhaustive)
}
