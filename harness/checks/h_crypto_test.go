package checks

import (
	"encoding/base64"

	"golang.org/x/crypto/argon2"
	"golang.org/x/crypto/blake2b"
	"golang.org/x/crypto/nacl/secretbox"
)

// harnessDeriveKey re-implements the documented key derivation of kv's
// V1NodeEncryptor (argon2id over the base64 passphrase, BLAKE2b-16 salt). It is
// validated against the encryptor before use (derivedKey).
func harnessDeriveKey(pass []byte) [32]byte {
	h, _ := blake2b.New(16, nil)
	h.Write(pass)
	salt := h.Sum(nil)
	k := argon2.IDKey([]byte(base64.StdEncoding.EncodeToString(pass)), salt, 1, 8, 1, 32)
	var out [32]byte
	copy(out[:], k)
	return out
}

// stdSeal: NaCl secretbox with the nonce in front.
func stdSeal(key *[32]byte, nonce [24]byte, m []byte) []byte {
	return secretbox.Seal(append([]byte{}, nonce[:]...), m, &nonce, key)
}
