package checks

// C15 — write_time makes retries idempotent and cannot reorder history; the
// connection attributes apply to exactly the statements issued while set.

import (
	"fmt"
	"testing"

	"pgregory.net/rapid"

	"verif/fakes3"
)

// ---------------------------------------------------------------------------
// (i)+(ii) retries and rewinds: metamorphic pair on the multi-writer runner

// runC15Retry runs a history; around every retry the merged contents of the
// table (a fresh reader of all committed versions) must not change, and if the
// retrying writer already holds the statement's effect its own rows must not
// change either. All outcomes and rows are also compared with the model.
func runC15Retry(c MWCase, o *Obs) error {
	r, err := newMWRun(c, o)
	if err != nil {
		return err
	}
	defer r.close()
	lastWriteStep := map[string]int{} // key id -> step index of the last effective write
	firstStep := map[int]int{}        // issued statement index -> step
	origWriter := map[int]int{}
	merged := func(where string) (Rows, error) {
		rows, err := r.observe(r.store.Clone(), true, nil, "m")
		if err != nil {
			return nil, fmt.Errorf("%s: %v", where, err)
		}
		return rows, nil
	}
	for i, s := range c.Steps {
		if s.W >= len(r.ws) {
			s.W = 0
		}
		ok := true
		for _, st := range s.Stmts {
			ok = ok && st.wellFormed()
		}
		if !ok || (s.Op == "stmt" && len(s.Stmts) != 1) {
			continue
		}
		nIssued := len(r.issued)
		where := fmt.Sprintf("step %d (%s w%d)", i, s.Op, s.W)
		if s.Op == "retry" {
			if s.Ref >= len(r.issued) {
				continue
			}
			st := r.issued[s.Ref]
			// restricted to statements that were effective when first run and name one key
			if !r.effective[s.Ref] || len(st.Keys) != 1 {
				continue
			}
			before, err := merged(where + " before the retry")
			if err != nil {
				return err
			}
			w := r.ws[s.W]
			ownBefore, err := w.conn.Dump(w.name)
			if err != nil {
				return fmt.Errorf("%s: %v", where, err)
			}
			_, wouldAdd, _ := w.view.Exec(st, wideCols)
			holds := true // does the writer already hold every operation the retry would add?
			for _, op := range wouldAdd {
				if _, ok := w.view[op.id()]; !ok {
					holds = false
				}
			}
			if err := r.step(i, s); err != nil {
				return err
			}
			after, err := merged(where + " after the retry")
			if err != nil {
				return err
			}
			if !after.Equal(before) {
				return fmt.Errorf("%s: re-executing %s (same write_time, same values) changed the merged table.\nbefore:\n%safter:\n%s", where, st, before, after)
			}
			if holds {
				ownAfter, err := w.conn.Dump(w.name)
				if err != nil {
					return fmt.Errorf("%s: %v", where, err)
				}
				if !ownAfter.Equal(ownBefore) {
					return fmt.Errorf("%s: re-executing %s on a writer that already holds its effect changed that writer's rows.\nbefore:\n%safter:\n%s", where, st, ownBefore, ownAfter)
				}
				o.Class("retry-on-writer-holding-the-effect")
			}
			if lastWriteStep[keyClassID(st.Keys[0])] > firstStep[s.Ref] {
				o.NonTrivial = true
				o.Class("retry-after-later-write-to-the-key")
			}
			continue
		}
		if err := r.step(i, s); err != nil {
			return err
		}
		for j := nIssued; j < len(r.issued); j++ {
			firstStep[j] = i
			origWriter[j] = s.W
			if r.effective[j] {
				for _, k := range r.issued[j].Keys {
					lastWriteStep[keyClassID(k)] = i
				}
			}
		}
	}
	return r.observeAll([]int{1, 2}, "end")
}

func init() { register("TestC15_Retry", runC15Retry) }

func TestC15_Retry(t *testing.T) {
	st := newStats(t, "C15", "TestC15_Retry", "multi-writer histories (1-3 writers, 1-4 keys) with unique write times in arbitrary order (the clock rewinds on every writer) and retries: re-execution of an earlier effective single-key statement, same write_time and values, on the same or another writer at any later point; every statement outcome and every writer's rows are compared with the reference model (an older write never overrides a newer effect, cell by cell), and around every retry the merged table (a fresh reader of all committed versions) must be unchanged, as must the rows of a retrying writer that already holds the effect; non-trivial = a retry issued after a later effective write to the same key")
	g := mwGenCfg{maxWriters: 3, keyChoices: []int{1, 2, 4}, maxSteps: 36,
		wStmt: 12, wTxn: 2, wRefresh: 2, wRetry: 8, wPartial: 0, wObserve: 0, wIns: 3, wUpd: 5, wDel: 3, multiRow: false, mode: "c15"}
	checkRapid(t, st, func(rt *rapid.T) MWCase { return genMWCase(rt, g) }, runC15Retry)
}

// ---------------------------------------------------------------------------
// (iii) attribute semantics

type AttrStep struct {
	Op  string `json:"op"`            // set read write txn
	WT  string `json:"wt,omitempty"`  // set: new write_time text; "-" = column not assigned
	DL  string `json:"dl,omitempty"`  // set: new deadline text; "-" = column not assigned
	Tab int    `json:"tab,omitempty"` // write/txn: which table
	Mid string `json:"mid,omitempty"` // txn: write_time assigned between its two statements ("-" none)
}

type AttrCase struct {
	Steps []AttrStep `json:"steps"`
}

var (
	goodTimes = []string{"2021-03-04 05:06:07", "2020-01-01 00:00:00", "2022-12-31 23:59:59", "2021-03-04 05:06:08"}
	badTimes  = []string{"yesterday", "2021-13-45 00:00:00", "2021-03-04", "2021-03-04T05:06:07Z", "12345", " 2021-03-04 05:06:07"}
	clearVals = []string{"NULL", "''"}
)

func genAttrCase(t *rapid.T) AttrCase {
	var c AttrCase
	val := func(l string, deadline bool) string {
		switch rapid.IntRange(0, 9).Draw(t, l+".kind") {
		case 0, 1:
			return "-"
		case 2, 3:
			return rapid.SampledFrom(clearVals).Draw(t, l+".clear")
		case 4:
			return "'" + rapid.SampledFrom(badTimes).Draw(t, l+".bad") + "'"
		default:
			if deadline {
				return "'" + rapid.SampledFrom([]string{"2099-01-01 00:00:00", "2001-01-01 00:00:00", "2098-06-06 06:06:06"}).Draw(t, l+".dl") + "'"
			}
			return "'" + rapid.SampledFrom(goodTimes).Draw(t, l+".good") + "'"
		}
	}
	n := rapid.IntRange(2, 20).Draw(t, "n")
	for i := 0; i < n; i++ {
		switch rapid.IntRange(0, 9).Draw(t, "op") {
		case 0, 1, 2, 3:
			s := AttrStep{Op: "set", WT: val("wt", false), DL: "-"}
			if rapid.IntRange(0, 2).Draw(t, "withdl") == 0 {
				s.DL = val("dl", true)
			}
			if s.WT == "-" && s.DL == "-" {
				s.WT = "NULL"
			}
			c.Steps = append(c.Steps, s)
		case 4:
			if rapid.Bool().Draw(t, "extra") {
				c.Steps = append(c.Steps, AttrStep{Op: "extra"})
			} else {
				c.Steps = append(c.Steps, AttrStep{Op: "read"})
			}
		case 5, 6, 7:
			c.Steps = append(c.Steps, AttrStep{Op: "write", Tab: rapid.IntRange(0, 1).Draw(t, "tab")})
		default:
			c.Steps = append(c.Steps, AttrStep{Op: "txn", Tab: rapid.IntRange(0, 1).Draw(t, "tab"), Mid: val("mid", false)})
		}
	}
	return c
}

func parseSQLiteTime(s string) (int64, bool) {
	for _, g := range append(append([]string{}, goodTimes...), "2099-01-01 00:00:00", "2001-01-01 00:00:00", "2098-06-06 06:06:06") {
		if s == g {
			var y, mo, d, h, mi, se int
			fmt.Sscanf(s, "%d-%d-%d %d:%d:%d", &y, &mo, &d, &h, &mi, &se)
			return timeUnix(y, mo, d, h, mi, se), true
		}
	}
	return 0, false
}

func runAttr(c AttrCase, o *Obs) error {
	bucket, _ := newBucket(nil)
	defer fakes3.Unregister(bucket)
	a, b := newConn(), newConn()
	defer a.Close()
	defer b.Close()
	tabs := []string{uniqName("t"), uniqName("t")}
	for i, tn := range tabs {
		if err := a.Create(TableSpec{Name: tn, Columns: "k primary key, a", Bucket: bucket, Client: "a", Prefix: fmt.Sprintf("p%d", i)}); err != nil {
			return err
		}
	}
	bt := uniqName("t")
	if err := b.Create(TableSpec{Name: bt, Columns: "k primary key, a", Bucket: bucket, Client: "b", Prefix: "pb"}); err != nil {
		return err
	}
	// model of connection a's attributes: "" = NULL
	wt, dl := "", ""
	nextKey := 0
	caseStart := nowNanos()

	readAttrs := func(conn *Conn) (string, string, error) {
		rows, err := conn.Query("select deadline, write_time from s3db_conn")
		if err != nil {
			return "", "", err
		}
		if len(rows) != 1 {
			return "", "", fmt.Errorf("s3db_conn has %d rows", len(rows))
		}
		dec := func(cell string) string {
			if cell == "N" {
				return ""
			}
			return string(Val{K: "t", X: cell[2:]}.Bytes())
		}
		return dec(rows[0][0]), dec(rows[0][1]), nil
	}
	checkAttrs := func(where string) error {
		gd, gw, err := readAttrs(a)
		if err != nil {
			return fmt.Errorf("%s: reading s3db_conn: %v", where, err)
		}
		if gd != dl || gw != wt {
			return fmt.Errorf("%s: s3db_conn reads (deadline=%q, write_time=%q), the last accepted values are (%q, %q)", where, gd, gw, dl, wt)
		}
		bd, bw, err := readAttrs(b)
		if err != nil || bd != "" || bw != "" {
			return fmt.Errorf("%s: the other connection's attributes moved: (deadline=%q, write_time=%q) err %v", where, bd, bw, err)
		}
		return nil
	}
	// expectation for a cell written now under write_time w ("" = none)
	checkStamp := func(tn string, key int, w string, where string) error {
		es, err := goDump(tn)
		if err != nil {
			return err
		}
		for _, e := range es {
			if e.Key != fmt.Sprintf("I:%d", key) {
				continue
			}
			got := e.Cols["a"].T
			if w != "" {
				want, _ := parseSQLiteTime(w)
				if got != want*1e9 || e.DelT != want*1e9 {
					return fmt.Errorf("%s: row %d was written while write_time=%s but is stamped %d / %d (ns)", where, key, w, got, e.DelT)
				}
			} else if got < caseStart || got > nowNanos() {
				return fmt.Errorf("%s: row %d was written with no write_time set but is stamped %d, outside the run [%d,%d]", where, key, got, caseStart, nowNanos())
			}
			return nil
		}
		return fmt.Errorf("%s: row %d is not in the table", where, key)
	}
	applySet := func(col, v string, cur *string) (reject bool) {
		switch {
		case v == "-":
		case v == "NULL" || v == "''":
			*cur = ""
		default:
			txt := v[1 : len(v)-1]
			if _, ok := parseSQLiteTime(txt); ok {
				*cur = txt
			} else {
				return true
			}
		}
		return false
	}
	deadlinePast := func() bool { return dl == "2001-01-01 00:00:00" }

	for i, s := range c.Steps {
		where := fmt.Sprintf("step %d (%s)", i, s.Op)
		switch s.Op {
		case "read":
			if err := checkAttrs(where); err != nil {
				return err
			}
		case "extra":
			// creating and dropping another table on the connection leaves attributes and
			// the other tables alone
			if deadlinePast() {
				continue
			}
			xn := uniqName("x")
			if err := a.Create(TableSpec{Name: xn, Columns: "k primary key", Bucket: bucket, Client: "a", Prefix: xn}); err != nil {
				return fmt.Errorf("%s: create: %v", where, err)
			}
			if err := a.Drop(xn); err != nil {
				return fmt.Errorf("%s: drop: %v", where, err)
			}
			if err := checkAttrs(where); err != nil {
				return err
			}
			for _, tn := range tabs {
				if _, err := a.Query("select count(*) from " + tn); err != nil {
					return fmt.Errorf("%s: after dropping another table of the connection (deadline=%q), table %s cannot be read: %v", where, dl, tn, err)
				}
			}
			o.Class("create-drop-extra-table")
		case "set":
			var sets []string
			if s.DL != "-" && s.DL != "" {
				sets = append(sets, "deadline="+s.DL)
			}
			if s.WT != "-" && s.WT != "" {
				sets = append(sets, "write_time="+s.WT)
			}
			if len(sets) == 0 {
				continue
			}
			q := "update s3db_conn set " + sets[0]
			if len(sets) > 1 {
				q += ", " + sets[1]
			}
			err := a.Exec(q)
			nw, nd := wt, dl
			rejW := applySet("write_time", s.WT, &nw)
			rejD := s.DL != "" && applySet("deadline", s.DL, &nd)
			if rejW || rejD {
				o.Class("malformed-attribute")
				if err == nil {
					return fmt.Errorf("%s: %q was accepted", where, q)
				}
				// rejected: nothing changes
			} else {
				if err != nil {
					return fmt.Errorf("%s: %q refused: %v", where, q, err)
				}
				wt, dl = nw, nd
			}
			if err := checkAttrs(where + " " + q); err != nil {
				return err
			}
		case "write":
			nextKey++
			tn := tabs[s.Tab%2]
			err := a.Exec("insert into "+tn+" values (?,?)", nextKey, nextKey)
			if deadlinePast() {
				o.Class("write-under-past-deadline")
				if err == nil {
					return fmt.Errorf("%s: the deadline %s is in the past but the INSERT succeeded", where, dl)
				}
				continue
			}
			if err != nil {
				return fmt.Errorf("%s: INSERT fails (deadline=%q write_time=%q): %v", where, dl, wt, err)
			}
			if err := checkStamp(tn, nextKey, wt, where); err != nil {
				return err
			}
			if wt != "" {
				o.NonTrivial = true
			}
			// the other connection writes with its own (unset) attributes
			if err := b.Exec("insert into "+bt+" values (?,?)", nextKey, 0); err != nil {
				return fmt.Errorf("%s: the other connection cannot write: %v", where, err)
			}
			if err := checkStamp(bt, nextKey, "", where+" (other connection)"); err != nil {
				return err
			}
		case "txn":
			if deadlinePast() {
				continue
			}
			tn := tabs[s.Tab%2]
			if err := a.Exec("begin"); err != nil {
				return fmt.Errorf("%s: begin: %v", where, err)
			}
			k1, k2 := nextKey+1, nextKey+2
			nextKey += 2
			w1 := wt
			if err := a.Exec("insert into "+tn+" values (?,?)", k1, k1); err != nil {
				return fmt.Errorf("%s: first INSERT: %v", where, err)
			}
			mid := false
			if s.Mid != "-" && s.Mid != "" {
				nw := wt
				if rej := applySet("write_time", s.Mid, &nw); !rej {
					if err := a.Exec("update s3db_conn set write_time=" + s.Mid); err != nil {
						return fmt.Errorf("%s: setting write_time inside the transaction: %v", where, err)
					}
					wt = nw
					mid = true
				}
			}
			w2 := wt
			if err := a.Exec("insert into "+tn+" values (?,?)", k2, k2); err != nil {
				return fmt.Errorf("%s: second INSERT: %v", where, err)
			}
			if err := a.Exec("commit"); err != nil {
				return fmt.Errorf("%s: commit: %v", where, err)
			}
			if err := checkStamp(tn, k1, w1, where+" first row"); err != nil {
				return err
			}
			if err := checkStamp(tn, k2, w2, where+" second row"); err != nil {
				return err
			}
			if w1 == "" && w2 == "" && !mid {
				// one instant for the whole transaction
				es, _ := goDump(tn)
				var t1, t2 int64
				for _, e := range es {
					if e.Key == fmt.Sprintf("I:%d", k1) {
						t1 = e.Cols["a"].T
					}
					if e.Key == fmt.Sprintf("I:%d", k2) {
						t2 = e.Cols["a"].T
					}
				}
				if t1 != t2 {
					return fmt.Errorf("%s: two rows of one transaction without write_time carry different times %d and %d", where, t1, t2)
				}
			}
			if err := checkAttrs(where + " after commit"); err != nil {
				return err
			}
			o.Class("txn")
		}
	}
	return checkAttrs("end")
}

func init() { register("TestC15_Attrs", runAttr) }

func TestC15_Attrs(t *testing.T) {
	st := newStats(t, "C15", "TestC15_Attrs", "one connection with two tables (and a second, untouched connection): 2-20 steps of UPDATE s3db_conn SET write_time/deadline = valid / NULL / '' / malformed text (one or both columns), SELECT from s3db_conn, INSERTs and two-statement transactions with an optional write_time change in the middle; s3db_conn must read back exactly the last accepted values (a malformed value is refused and changes nothing), every written cell must carry the write_time in force for its statement (a time inside the run when none is set, one instant per transaction), a past deadline must fail exactly the writes issued while it is set, and the second connection's attributes and stamps never move; non-trivial = a write stamped with an explicit write_time")
	st.Assume = append(st.Assume, "the wall clock is read only to bound 'default' stamps to the duration of the case")
	checkRapid(t, st, genAttrCase, runAttr)
}
