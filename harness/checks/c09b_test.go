package checks

// C09/C16, kv level: the table returns to an earlier content after a vacuum.
// Nodes are content-addressed, so writing the same entries again needs the node
// object that the vacuum deleted in between. With a node cache the writer may
// believe the object is still stored.

import (
	"context"
	"fmt"
	"strings"
	"testing"
	"time"

	"github.com/jrhy/mast"
	"github.com/jrhy/s3db/kv"
	"pgregory.net/rapid"

	"verif/fakes3"
)

type ReturnCycle struct {
	Keys   []int `json:"keys"`   // keys written in this cycle (value and time depend on the key only)
	Reopen bool  `json:"reopen"` // take a new handle (same cache) before writing them again
	Other  bool  `json:"other"`  // a second handle (same cache) writes them again
	// Fault: the deletion of history runs under a storage fault: "root-deletes" = every DELETE
	// of a version object fails (the node objects are gone by then), "node-deletes-from" =
	// node DELETEs fail from the FaultAt-th on
	Fault   string `json:"fault,omitempty"`
	FaultAt int    `json:"fault_at,omitempty"`
}

type ReturnCase struct {
	BF     int           `json:"bf"`
	Cache  int           `json:"cache"`
	Cycles []ReturnCycle `json:"cycles"`
}

func genReturnCase(t *rapid.T) ReturnCase {
	c := ReturnCase{BF: rapid.SampledFrom([]int{2, 4, 4096}).Draw(t, "bf"), Cache: rapid.SampledFrom([]int{0, 1, 4, 1000}).Draw(t, "cache")}
	n := rapid.IntRange(1, 4).Draw(t, "ncycles")
	for i := 0; i < n; i++ {
		c.Cycles = append(c.Cycles, ReturnCycle{
			Keys:   rapid.SliceOfNDistinct(rapid.IntRange(1, 9), 1, 6, func(k int) int { return k }).Draw(t, "keys"),
			Reopen: rapid.Bool().Draw(t, "reopen"), Other: rapid.Bool().Draw(t, "other"),
			Fault: rapid.SampledFrom([]string{"", "", "root-deletes", "node-deletes-from"}).Draw(t, "fault"), FaultAt: rapid.IntRange(1, 4).Draw(t, "faultat")})
	}
	return c
}

func runReturn(c ReturnCase, o *Obs) error {
	ctx := context.Background()
	store := fakes3.New()
	var cache mast.NodeCache
	if c.Cache > 0 {
		cache = mast.NewNodeCache(c.Cache) // "One cache can be shared by any number of trees"
	}
	cfg := func(withCache bool) kv.Config {
		k := kv.Config{Storage: &kv.S3BucketInfo{EndpointURL: "verif://ret", BucketName: "b", Prefix: "ret"}, KeysLike: "", ValuesLike: "", BranchFactor: uint(c.BF)}
		if withCache {
			k.NodeCache = cache
		}
		return k
	}
	clock := int64(5000)
	open := func(client string) (*kv.DB, error) {
		clock++
		return kv.Open(ctx, store.Client(client), cfg(true), kv.OpenOptions{}, time.Unix(clock, 0))
	}
	h, err := open("verif://ret")
	if err != nil {
		return err
	}
	defer func() { h.Cancel() }()
	set := func(db *kv.DB, keys []int) error {
		for _, k := range keys {
			if err := db.Set(ctx, time.Unix(int64(100+k), 0), fmt.Sprintf("k%d", k), fmt.Sprintf("v%d", k)); err != nil {
				return err
			}
		}
		_, err := db.Commit(ctx)
		return err
	}
	fresh := func(where string, want []int) error {
		db, err := kv.Open(ctx, store.Client("verif://fresh"), cfg(false), kv.OpenOptions{ReadOnly: true}, time.Unix(clock+1, 0))
		if err != nil {
			return fmt.Errorf("%s: a fresh handle cannot open the committed table: %v", where, err)
		}
		for _, k := range want {
			var v string
			ok, err := db.Get(ctx, fmt.Sprintf("k%d", k), &v)
			if err != nil {
				return fmt.Errorf("%s: a fresh handle cannot read k%d: %v", where, k, err)
			}
			if !ok || v != fmt.Sprintf("v%d", k) {
				return fmt.Errorf("%s: a fresh handle reads k%d = %q (present %v), committed was v%d", where, k, v, ok, k)
			}
		}
		if db.Size() != uint64(len(want)) {
			return fmt.Errorf("%s: a fresh handle sees %d entries, committed were %d", where, db.Size(), len(want))
		}
		return nil
	}
	for i, cy := range c.Cycles {
		where := fmt.Sprintf("cycle %d", i)
		if err := set(h, cy.Keys); err != nil {
			return fmt.Errorf("%s: first write: %v", where, err)
		}
		if err := fresh(where+" after the first write", cy.Keys); err != nil {
			return err
		}
		for _, k := range cy.Keys {
			if err := h.Tombstone(ctx, time.Unix(int64(300+k), 0), fmt.Sprintf("k%d", k)); err != nil {
				return fmt.Errorf("%s: tombstone: %v", where, err)
			}
		}
		if _, err := h.Commit(ctx); err != nil {
			return fmt.Errorf("%s: commit of the tombstones: %v", where, err)
		}
		if err := h.RemoveTombstones(ctx, time.Unix(1000, 0)); err != nil {
			return fmt.Errorf("%s: RemoveTombstones: %v", where, err)
		}
		if _, err := h.Commit(ctx); err != nil {
			return fmt.Errorf("%s: commit of the purge: %v", where, err)
		}
		nodesBefore := len(store.Keys("ret/node/"))
		if cy.Fault != "" {
			n := 0
			store.Intercept = func(q *fakes3.Req) error {
				if q.Op != "DELETE" {
					return nil
				}
				switch {
				case cy.Fault == "root-deletes" && strings.Contains(q.Key, "/root/"):
					return fakes3.ErrInjected
				case cy.Fault == "node-deletes-from" && strings.Contains(q.Key, "/node/"):
					n++
					if n >= cy.FaultAt {
						return fakes3.ErrInjected
					}
				}
				return nil
			}
		}
		derr := kv.DeleteHistoricVersions(ctx, h, time.Unix(1<<40, 0))
		store.Intercept = nil
		if derr != nil && cy.Fault == "" {
			return fmt.Errorf("%s: DeleteHistoricVersions: %v", where, derr)
		}
		if derr != nil {
			o.Class("deletion-cut-short-by-fault")
		}
		if len(store.Keys("ret/node/")) < nodesBefore {
			o.Class("vacuum-deleted-nodes")
			if c.Cache > 0 {
				o.NonTrivial = true
			}
		}
		if err := fresh(where+" after the vacuum", nil); err != nil {
			return err
		}
		w := h
		if cy.Reopen {
			h.Cancel()
			if h, err = open("verif://ret"); err != nil {
				return fmt.Errorf("%s: reopen: %v", where, err)
			}
			w = h
		}
		if cy.Other {
			other, err := open("verif://ret2")
			if err != nil {
				return fmt.Errorf("%s: second handle: %v", where, err)
			}
			w = other
			defer other.Cancel()
		}
		// the same entries again (same values, same times): the same node objects are needed again
		if err := set(w, cy.Keys); err != nil {
			return fmt.Errorf("%s: second write: %v", where, err)
		}
		if err := fresh(where+" after writing the same entries again", cy.Keys); err != nil {
			return err
		}
		// back to empty for the next cycle
		if w != h {
			h.Cancel()
			if h, err = open("verif://ret"); err != nil {
				return fmt.Errorf("%s: reopen: %v", where, err)
			}
		}
		for _, k := range cy.Keys {
			if err := h.Tombstone(ctx, time.Unix(int64(300+k), 0), fmt.Sprintf("k%d", k)); err != nil {
				return fmt.Errorf("%s: tombstone: %v", where, err)
			}
		}
		if _, err := h.Commit(ctx); err != nil {
			return err
		}
		if err := h.RemoveTombstones(ctx, time.Unix(1000, 0)); err != nil {
			return err
		}
		if _, err := h.Commit(ctx); err != nil {
			return err
		}
		if err := kv.DeleteHistoricVersions(ctx, h, time.Unix(1<<40, 0)); err != nil {
			return fmt.Errorf("%s: second DeleteHistoricVersions: %v", where, err)
		}
		o.Class("cycle")
	}
	return nil
}

func init() { register("TestC09_KVContentReturns", runReturn) }

func TestC09_KVContentReturns(t *testing.T) {
	st := newStats(t, "C09", "TestC09_KVContentReturns", "kv level, one bucket prefix, branch factor 2/4/4096, a node cache of 0/1/4/1000 entries shared by the handles (as mast documents): 1-4 cycles of: Set 1-6 keys (value and time depend on the key only), Commit, Tombstone them, Commit, RemoveTombstones, Commit, DeleteHistoricVersions with a cutoff after everything (the node objects of the first write are deleted; in half of the cycles under a storage fault: the DELETEs of version objects fail, or node DELETEs fail from the n-th on), then Set the SAME entries again through the same handle, a new handle or a second handle, Commit; after every commit a fresh handle without cache must open the table and read exactly the committed entries; non-trivial = a cycle in which the vacuum deleted node objects while a cache was configured")
	checkRapid(t, st, genReturnCase, runReturn)
}

// The same runner under C16 ("every object a committed version refers to exists ... a fresh
// process with an empty cache can read the whole table"): the commits after the vacuum are
// the ones at stake.
func init() { register("TestC16_KVContentReturns", runReturn) }

func TestC16_KVContentReturns(t *testing.T) {
	st := newStats(t, "C16", "TestC16_KVContentReturns", "the kv-level runner of TestC09_KVContentReturns under C16: entries written, tombstoned, purged, their history deleted (in half of the cycles under a storage fault that cuts the deletion short), then the SAME entries written again through the same, a new or a second handle with a shared node cache of 0/1/4/1000 entries; after every acknowledged commit a fresh handle WITHOUT cache must open the table and read exactly the committed entries (every object the version refers to exists); non-trivial = a cycle in which node objects were deleted while a cache was configured")
	checkRapid(t, st, genReturnCase, runReturn)
}
