package checks

// C19 (ii) — connections on the built-in in-memory bucket (no s3_bucket: the documented
// default). The bucket is a process-wide singleton that the first table to need it starts;
// the interesting moment is therefore the FIRST use in a process, made by several
// connections at once. The driver gives this sub-check one or two cases per process and
// many processes; later cases in a process still check concurrent use of the singleton.

import (
	"fmt"
	"strings"
	"sync"
	"sync/atomic"
	"testing"
	"time"

	"pgregory.net/rapid"
)

type FirstUseStream struct {
	Rows    int  `json:"rows"`    // rows inserted (own key range)
	Txn     bool `json:"txn"`     // inside BEGIN..COMMIT
	Refresh bool `json:"refresh"` // s3db_refresh before the own read
	Second  bool `json:"second"`  // a second table on the same prefix, opened afterwards by the same connection
	EPN     int  `json:"epn"`
}

type FirstUseCase struct {
	Streams []FirstUseStream `json:"streams"`
}

func genFirstUseCase(t *rapid.T) FirstUseCase {
	var c FirstUseCase
	m := rapid.IntRange(2, 8).Draw(t, "m")
	for i := 0; i < m; i++ {
		c.Streams = append(c.Streams, FirstUseStream{
			Rows:    rapid.IntRange(1, 5).Draw(t, "rows"),
			Txn:     rapid.Bool().Draw(t, "txn"),
			Refresh: rapid.IntRange(0, 3).Draw(t, "refresh") != 0,
			Second:  rapid.Bool().Draw(t, "second"),
			EPN:     rapid.SampledFrom([]int{2, 4096}).Draw(t, "epn"),
		})
	}
	return c
}

var inMemBucketUsed int32

func runFirstUse(c FirstUseCase, o *Obs) error {
	if len(c.Streams) == 0 {
		return nil
	}
	first := atomic.CompareAndSwapInt32(&inMemBucketUsed, 0, 1)
	run := uniqName("fu") // the bucket is process-global: prefixes must be unique
	type result struct {
		err  error
		want Rows
	}
	results := make([]result, len(c.Streams))
	prefixOf := func(ci int) string { return fmt.Sprintf("%s_%d", run, ci) }
	var wg sync.WaitGroup
	start := make(chan struct{})
	for ci := range c.Streams {
		wg.Add(1)
		go func(ci int) {
			defer wg.Done()
			defer func() {
				if r := recover(); r != nil {
					results[ci].err = fmt.Errorf("PANIC: %v", r)
				}
			}()
			s := c.Streams[ci]
			conn := newConn()
			defer conn.Close()
			<-start
			sp := TableSpec{Name: uniqName("fut"), Columns: mwCols, Prefix: prefixOf(ci), EPN: s.EPN}
			if err := conn.Create(sp); err != nil {
				results[ci].err = fmt.Errorf("create: %v", err)
				return
			}
			model := MSet{}
			if s.Txn {
				if err := conn.Exec("begin"); err != nil {
					results[ci].err = err
					return
				}
			}
			for k := 1; k <= s.Rows; k++ {
				st := Stmt{Kind: "ins", Keys: []Val{vInt(int64(100*ci + k))}, Cols: []string{"a"}, Vals: [][]Val{{vInt(int64(k))}}, T: int64(k)}
				q, args := st.SQL(sp.Name, "k")
				if err := conn.Exec(q, args...); err != nil {
					results[ci].err = fmt.Errorf("%s: %v", st, err)
					return
				}
				_, added, _ := model.Exec(st, wideCols)
				for _, op := range added {
					model.Add(op)
				}
			}
			if s.Txn {
				if err := conn.Exec("commit"); err != nil {
					results[ci].err = fmt.Errorf("commit: %v", err)
					return
				}
			}
			results[ci].want = model.Rows(wideCols)
			if s.Refresh {
				if err := conn.Refresh(sp.Name); err != nil {
					results[ci].err = fmt.Errorf("s3db_refresh: %v", err)
					return
				}
			}
			got, err := conn.Dump(sp.Name)
			if err != nil {
				results[ci].err = fmt.Errorf("scan: %v", err)
				return
			}
			if !got.Equal(results[ci].want) {
				results[ci].err = fmt.Errorf("after its own commit (refresh=%v) the connection reads\n%sbut it wrote\n%s", s.Refresh, got, results[ci].want)
				return
			}
			if s.Second {
				sp2 := sp
				sp2.Name, sp2.ReadOnly = uniqName("fut2"), true
				if err := conn.Create(sp2); err != nil {
					results[ci].err = fmt.Errorf("second table on the same prefix: %v", err)
					return
				}
				got, err := conn.Dump(sp2.Name)
				if err != nil {
					results[ci].err = fmt.Errorf("scan of the second table: %v", err)
					return
				}
				if !got.Equal(results[ci].want) {
					results[ci].err = fmt.Errorf("a second table on the same prefix reads\n%sbut the connection committed\n%s", got, results[ci].want)
				}
			}
		}(ci)
	}
	close(start)
	done := make(chan struct{})
	go func() { wg.Wait(); close(done) }()
	select {
	case <-done:
	case <-time.After(300 * time.Second):
		return fmt.Errorf("DEADLOCK-OR-HANG: after 300 s not every connection has finished")
	}
	for ci, r := range results {
		if r.err != nil {
			return fmt.Errorf("connection %d (first use of the in-memory bucket in this process: %v): %v", ci, first, r.err)
		}
	}
	// a later connection sees every prefix as committed, and nothing else there
	conn := newConn()
	defer conn.Close()
	for ci := range c.Streams {
		sp := TableSpec{Name: uniqName("fur"), Columns: mwCols, Prefix: prefixOf(ci), ReadOnly: true, EPN: c.Streams[ci].EPN}
		if err := conn.Create(sp); err != nil {
			return fmt.Errorf("later open of connection %d's prefix: %v", ci, err)
		}
		got, err := conn.Dump(sp.Name)
		if err != nil {
			return fmt.Errorf("later scan of connection %d's prefix: %v", ci, err)
		}
		if !got.Equal(results[ci].want) {
			return fmt.Errorf("a later connection reads connection %d's table as\n%sbut that connection committed\n%s(first use of the in-memory bucket in this process: %v)", ci, got, strings.TrimSpace(results[ci].want.String())+"\n", first)
		}
	}
	o.ClassN("connections", len(c.Streams))
	if first {
		o.Class("first-use-of-the-in-memory-bucket-in-the-process")
		o.NonTrivial = true
	}
	return nil
}

func init() { register("TestC19_FirstUse", runFirstUse) }

func TestC19_FirstUse(t *testing.T) {
	st := newStats(t, "C19", "TestC19_FirstUse", "2-8 connections on their own threads, each creating a table WITHOUT s3_bucket (the documented default: a process-wide in-memory bucket that the first table to need it starts) on its own prefix, inserting 1-5 rows (autocommit or one transaction), optionally s3db_refresh, reading its rows back, optionally through a second table on the same prefix; afterwards a later connection opens every prefix read-only: every read must equal what that connection committed; built with the race detector; the driver runs one or two cases per process over many processes, because the moment of interest is the first use of the singleton in a process; non-trivial = the case that made the first use in its process")
	st.Assume = append(st.Assume, "thread schedules are whatever the Go scheduler produces; each process gives one sample of the first-use window")
	checkRapid(t, st, genFirstUseCase, runFirstUse)
}

// C19 (iii) — connections of one process used one after another on one prefix: no cross-talk
// through process-wide state. The multi-writer runner (every writer is a connection of this
// process) with node caches on, starting with the "content returns" pattern: a node object
// written by one connection, deleted by its vacuum, and needed again by another connection.
func init() { register("TestC19_Sequential", runMW) }

func TestC19_Sequential(t *testing.T) {
	st := newStats(t, "C19", "TestC19_Sequential", "2-3 connections of one process on one bucket prefix, single-node trees, node_cache_entries 3 or 1000 on every table, run strictly one after another by the multi-writer runner: the history starts with INSERT of a row by connection 0, DELETE of it, s3db_vacuum with the year-2100 cutoff (the node object is deleted from the bucket), then the byte-identical INSERT through connection 0 or 1, then fresh observers; then a generated history of statements, transactions, refreshes and vacuums; every connection's rows and every merged observer must equal the reference model: a table's result may not depend on what another connection of the process did other than through the bucket; non-trivial as for C01")
	g := vacGen("c09")
	g.returnPattern = 1
	g.maxSteps = 12
	checkRapid(t, st, func(rt *rapid.T) MWCase { return genMWCase(rt, g) }, runMW)
}
