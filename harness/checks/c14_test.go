package checks

// C14 — storage faults surface as errors; never wrong answers, hangs or crashes.
// A committed prefix history, then one target statement executed on a fresh
// read-write handle; a fault-free reference run gives its result and request
// count R; then the statement is re-run for every request index p with
// (a) a single transport error at p, (b) every request from p on failing, and
// once with (c) the connection's deadline in the past.

import (
	"fmt"
	s3db "github.com/jrhy/s3db"
	"os"
	"strings"
	"testing"

	"pgregory.net/rapid"

	"verif/fakes3"
)

type C14Case struct {
	Prefix MWCase `json:"prefix"`
	Target string `json:"target"` // select point range write txn refresh version changes vacuum create
	Stmts  []Stmt `json:"stmts,omitempty"`
	Key    Val    `json:"key"`
	Cut    int64  `json:"cut,omitempty"`
	Ref    int    `json:"ref,omitempty"`
	// RO: the handle is opened read-only, so versions left unmerged by the prefix are
	// still unmerged when the target statement (refresh, create, ...) runs
	RO bool `json:"ro,omitempty"`
	// Late: a statement another writer (opened before the target handle) commits after the
	// target handle was opened: the target statement runs on a handle that has not merged
	// that writer's version (e.g. a vacuum next to an unmerged sibling version)
	Late *Stmt `json:"late,omitempty"`
	// Continue (target txn): a statement that fails with a storage error does not end the
	// transaction; the remaining statements run and the transaction is committed. Only
	// single-row statements (a multi-row statement cut short keeps its first rows: K3)
	Continue bool `json:"continue,omitempty"`
	// Reread: after every fault run every version name recorded during the prefix is opened
	// again (restricted to that version) and must still give its recorded rows (C11: a commit
	// that retires versions under a fault must not lose them)
	Reread bool `json:"reread,omitempty"`
	// NoRefresh: after the fault has cleared the connection goes on writing WITHOUT an
	// s3db_refresh in between (a failed commit must leave the handle in a state from which
	// the next commit is again complete: "never reports success for a write that a later
	// open cannot see")
	NoRefresh bool `json:"no_refresh,omitempty"`
}

func genC14Case(t *rapid.T) C14Case {
	g := mwGenCfg{maxWriters: 2, keyChoices: []int{4, 8, 16}, maxSteps: 14,
		wStmt: 12, wTxn: 2, wRefresh: 1, wRetry: 0, wPartial: 0, wObserve: 0, wVacuum: 0,
		wIns: 6, wUpd: 2, wDel: 2, multiRow: true, mode: "c14", smallVals: true}
	if rapid.IntRange(0, 2).Draw(t, "manyfrontier") == 0 {
		// writers that never refresh: several versions stay unmerged for the target
		g.maxWriters, g.wRefresh = 3, 0
	}
	c := C14Case{Prefix: genMWCase(t, g)}
	c.Target = rapid.SampledFrom([]string{"select", "point", "range", "write", "write", "txn", "txn", "refresh", "version", "changes", "vacuum", "vacuum", "vacuum", "create"}).Draw(t, "target")
	c.Key = rapid.SampledFrom(intKeys(c.Prefix.NKeys)).Draw(t, "key")
	cfg := stmtGenCfg{keys: intKeys(c.Prefix.NKeys), cols: wideCols, vals: rapid.SampledFrom([]Val{vNull(), vInt(1), vInt(2)}), multiRow: true, wIns: 4, wUpd: 3, wDel: 3}
	n := 1
	if c.Target == "txn" {
		n = rapid.IntRange(1, 3).Draw(t, "n")
	}
	if c.Target == "txn" && rapid.IntRange(0, 1).Draw(t, "continue") == 0 {
		c.Continue = true
		cfg.multiRow = false
		n = rapid.IntRange(2, 4).Draw(t, "ncont")
	}
	if c.Continue && rapid.IntRange(0, 2).Draw(t, "contshape") != 0 {
		// the shape in which a statement can fail in the middle of the tree update: a populated
		// multi-node table and several single-row writes that move keys between nodes
		c.Prefix.EPN = rapid.SampledFrom([]int{2, 3}).Draw(t, "contepn")
		c.Prefix.NKeys = 16
		fill := Stmt{Kind: "ins", Cols: []string{"a"}, T: -10}
		for i, k := range intKeys(16) {
			if i%3 != 2 {
				fill.Keys = append(fill.Keys, k)
				fill.Vals = append(fill.Vals, []Val{vInt(int64(i % 3))})
			}
		}
		c.Prefix.Steps = append([]MWStep{{Op: "stmt", W: 0, Stmts: []Stmt{fill}}}, c.Prefix.Steps...)
		cfg.keys = intKeys(16)
		cfg.wIns, cfg.wUpd, cfg.wDel = 6, 1, 3
		n = rapid.IntRange(3, 5).Draw(t, "ncontshape")
	}
	if c.Target == "write" || c.Target == "txn" {
		for i := 0; i < n; i++ {
			s := genStmt(t, cfg, "t")
			s.T = int64(60*256 + i)
			c.Stmts = append(c.Stmts, s)
		}
	}
	c.Cut = rapid.SampledFrom([]int64{-1, -1, 41 * 256, 2000}).Draw(t, "cut")
	c.Ref = rapid.IntRange(0, 50).Draw(t, "ref")
	switch c.Target {
	case "select", "point", "range", "refresh", "version", "changes", "create":
		c.RO = rapid.IntRange(0, 2).Draw(t, "ro") != 0
	}
	if c.Target == "vacuum" && rapid.IntRange(0, 2).Draw(t, "vacshape") != 0 {
		// the shape in which the protection walk of a vacuum matters: a populated multi-node
		// table, rows deleted before the cutoff (the vacuum rewrites part of the tree), and
		// (below) a late writer whose unmerged version still shares the old nodes
		c.Prefix.EPN = rapid.SampledFrom([]int{2, 3, 4}).Draw(t, "vacepn")
		c.Prefix.NKeys = 16
		fill := Stmt{Kind: "ins", Cols: []string{"a"}, T: -10}
		for i, k := range intKeys(16) {
			fill.Keys = append(fill.Keys, k)
			fill.Vals = append(fill.Vals, []Val{vInt(int64(i % 3))})
		}
		steps := []MWStep{{Op: "stmt", W: 0, Stmts: []Stmt{fill}}}
		steps = append(steps, c.Prefix.Steps...)
		nd := rapid.IntRange(1, 3).Draw(t, "vacdels")
		for i := 0; i < nd; i++ {
			k := rapid.SampledFrom(intKeys(16)).Draw(t, "vacdelkey")
			steps = append(steps, MWStep{Op: "stmt", W: 0, Stmts: []Stmt{{Kind: "del", Keys: []Val{k}, T: int64(41*256 + i)}}})
		}
		c.Prefix.Steps = steps
		c.Cut = -1
		c.Key = rapid.SampledFrom(intKeys(16)).Draw(t, "vackey")
	}
	c.Reread = c.Target != "vacuum" && rapid.IntRange(0, 2).Draw(t, "reread") == 0
	c.NoRefresh = (c.Target == "write" || c.Target == "txn" || c.Target == "vacuum") && rapid.Bool().Draw(t, "norefresh")
	if c.Target == "vacuum" || rapid.IntRange(0, 3).Draw(t, "withLate") == 0 {
		lcfg := cfg
		lcfg.multiRow = false
		l := genStmt(t, lcfg, "late")
		if c.Target == "vacuum" && c.Prefix.NKeys == 16 && rapid.Bool().Draw(t, "lateupd") {
			l = Stmt{Kind: "upd", Keys: []Val{rapid.SampledFrom(intKeys(16)).Draw(t, "latekey")}, Cols: []string{"b"}, Vals: [][]Val{{vInt(1)}}}
		}
		l.T = int64(50 * 256)
		c.Late = &l
	}
	return c
}

type c14Result struct {
	err   error
	rows  Rows
	after MSet // model contents if the statement took effect
	acked bool
	// skipped: statements of a continued transaction that failed with a storage error
	skipped      int
	created      TableSpec // target create: the definition that was tried
	createFailed bool
}

// c14Handle: a fresh read-write table on a copy of the bucket, client "tgt".
type c14Handle struct {
	st   *fakes3.Store
	b    string
	conn *Conn
	name string
	spec TableSpec
}

func openC14(st *fakes3.Store, spec TableSpec, ro bool) (*c14Handle, error) {
	return openC14As(st, spec, ro, "tgt")
}

// withLate opens the target handle; with a late statement, the other writer is opened
// first and commits it once the target handle is open.
func (c C14Case) withLate(st *fakes3.Store, spec TableSpec, view MSet) (*c14Handle, []MOp, error) {
	var lw *c14Handle
	var err error
	if c.Late != nil && c.Late.wellFormed() {
		if lw, err = openC14As(st, spec, false, "late"); err != nil {
			return nil, nil, fmt.Errorf("late writer: %v", err)
		}
		defer lw.close()
	}
	h, err := openC14(st, spec, c.RO)
	if err != nil || lw == nil {
		return h, nil, err
	}
	outcome, added, _ := view.Exec(*c.Late, wideCols)
	if err := lw.conn.SetWriteTime(baseTime + c.Late.T); err != nil {
		h.close()
		return nil, nil, err
	}
	q, args := c.Late.SQL(lw.name, "k")
	if cls := errClass(lw.conn.Exec(q, args...)); cls != outcome {
		h.close()
		return nil, nil, fmt.Errorf("late writer: %s: outcome %s, model expects %s", *c.Late, cls, outcome)
	}
	return h, added, nil
}

func openC14As(st *fakes3.Store, spec TableSpec, ro bool, client string) (*c14Handle, error) {
	h := &c14Handle{st: st, conn: newConn(), name: uniqName("tg")}
	h.b, _ = newBucket(st)
	h.spec = spec
	h.spec.Bucket, h.spec.Name, h.spec.Client, h.spec.ReadOnly = h.b, h.name, client, ro
	if err := h.conn.Create(h.spec); err != nil {
		h.close()
		return nil, err
	}
	return h, nil
}

func (h *c14Handle) close() {
	h.conn.Close()
	fakes3.Unregister(h.b)
}

// runTarget executes the target statement.
func (h *c14Handle) runTarget(c C14Case, view MSet, snaps []verSnap) c14Result {
	res := c14Result{after: view}
	t := h.name
	switch c.Target {
	case "select":
		res.rows, res.err = h.conn.Query("select * from " + t)
	case "point":
		res.rows, res.err = h.conn.Query("select * from "+t+" where k=?", c.Key.Arg())
	case "range":
		res.rows, res.err = h.conn.Query("select * from "+t+" where k>=? order by k desc", c.Key.Arg())
	case "version":
		var v string
		v, res.err = h.conn.Version(t)
		_ = v // names differ between copies (creation time of the merge commit): not compared
	case "refresh":
		res.err = h.conn.Refresh(t)
		if res.err == nil {
			res.rows, res.err = h.conn.Dump(t)
		}
	case "create":
		n2 := uniqName("tg2")
		sp := h.spec
		sp.Name, sp.ReadOnly = n2, false
		res.err = h.conn.Create(sp)
		res.created, res.createFailed = sp, res.err != nil
		if res.err == nil {
			res.rows, res.err = h.conn.Dump(n2)
		}
	case "changes":
		if len(snaps) == 0 {
			res.rows, res.err = h.conn.Query("select * from " + t)
			break
		}
		sn := snaps[c.Ref%len(snaps)]
		cn := uniqName("cg")
		res.err = h.conn.Exec(fmt.Sprintf("create virtual table %s using s3db_changes(table='%s', from='%s')", cn, t, sn.Version))
		if res.err == nil {
			res.rows, res.err = h.conn.Query("select * from " + cn)
		}
	case "vacuum":
		cut, mcut := baseTime+c.Cut, c.Cut
		if c.Cut < 0 {
			cut, mcut = farFuture, 1<<40
		}
		res.err = h.conn.Vacuum(t, cut)
		a := view.Clone()
		a.Vacuum(mcut)
		res.after = a
	case "write", "txn":
		after := view.Clone()
		tainted := ""
		explicit := c.Target == "txn"
		if explicit {
			if res.err = h.conn.Exec("begin"); res.err != nil {
				return res
			}
		}
		for _, s := range c.Stmts {
			if !s.wellFormed() {
				continue
			}
			outcome, added, _ := after.Exec(s, wideCols)
			if outcome != "ok" && len(s.Keys) > 1 {
				continue
			}
			if res.err = h.conn.SetWriteTime(baseTime + s.T); res.err != nil {
				break
			}
			q, args := s.SQL(t, "k")
			err := h.conn.Exec(q, args...)
			if os.Getenv("VERIF_TRACE") != "" {
				fmt.Fprintf(os.Stderr, "  stmt %s -> %v\n", s, err)
			}
			cls := errClass(err)
			if cls == "error" && explicit && c.Continue && len(s.Keys) == 1 {
				res.skipped++
				// the statement reported an error and the transaction goes on: it must have had no
				// effect (a statement that fails inside the tree update makes the transaction
				// un-committable since the repair R30; COMMIT then fails and rolls back)
				continue
			} else if cls == "error" {
				res.err = err
				break
			} else if cls != outcome && res.skipped > 0 {
				// a later statement sees an effect of a statement that reported an error (there
				// is no statement-level undo): allowed only in a transaction that can no longer
				// be committed
				tainted = fmt.Sprintf("%s: outcome %s, the model (in which the failed statement had no effect) expects %s", s, cls, outcome)
				continue
			} else if cls != outcome {
				res.err = fmt.Errorf("HARNESS-MISMATCH %s: outcome %s, model expects %s", s, cls, outcome)
				break
			}
			for _, op := range added {
				after.Add(op)
			}
		}
		if explicit {
			if res.err != nil {
				_ = h.conn.Exec("rollback")
			} else {
				res.err = h.conn.Exec("commit")
				if res.err == nil && tainted != "" {
					res.err = fmt.Errorf("HARNESS-MISMATCH the transaction committed although a statement had seen the effect of a statement that reported an error (%s)", tainted)
				}
			}
		}
		if res.err == nil {
			res.after = after
		}
	}
	res.acked = res.err == nil
	if res.rows != nil && c.Target != "range" {
		res.rows = res.rows.Sorted()
	}
	return res
}

func runC14(c C14Case, o *Obs) error {
	c.Prefix.Mode = "c14"
	r, err := newMWRun(c.Prefix, o)
	if err != nil {
		return err
	}
	defer r.close()
	for i, s := range c.Prefix.Steps {
		if s.W >= len(r.ws) {
			s.W = 0
		}
		ok := true
		for _, st := range s.Stmts {
			ok = ok && st.wellFormed()
		}
		if !ok || (s.Op == "stmt" && len(s.Stmts) != 1) {
			continue
		}
		if err := r.step(i, s); err != nil {
			return fmt.Errorf("prefix: %v", err)
		}
	}
	view, err := r.expectCurrent(r.store, false)
	if err != nil {
		return err
	}

	tgtReqs := func(st *fakes3.Store, from int) int {
		n := 0
		for _, q := range st.LogSince(from) {
			if q.Client == "verif://tgt" {
				n++
			}
		}
		return n
	}

	// reference run
	refStore := r.store.Clone()
	h, lateOps, err := c.withLate(refStore, r.spec, view)
	if err != nil {
		return fmt.Errorf("reference open: %v", err)
	}
	withLateOps := func(s MSet) Rows {
		u := s.Clone()
		for _, op := range lateOps {
			u.Add(op)
		}
		return u.Rows(wideCols)
	}
	before := withLateOps(view)
	from := refStore.LogLen()
	ref := h.runTarget(c, view, r.snaps)
	nreq := tgtReqs(refStore, from)
	height := tableHeight(h.name)
	h.close()
	if ref.err != nil {
		if strings.Contains(ref.err.Error(), "HARNESS-MISMATCH") {
			return ref.err
		}
		return fmt.Errorf("target %s fails without any fault: %v", c.Target, ref.err)
	}
	after := withLateOps(ref.after)
	o.Class("target-" + c.Target)
	if len(lateOps) > 0 {
		o.Class("target-on-handle-with-unmerged-later-version")
		if c.Target == "vacuum" && c.Cut < 0 {
			o.Class("vacuum-next-to-unmerged-version-under-fault")
		}
	}
	if c.RO && len(r.currentNames()) >= 2 && (c.Target == "refresh" || c.Target == "create") {
		o.Class("target-merges>=2-under-fault")
	}

	type mode struct {
		name string
		p    int
	}
	var modes []mode
	for p := 0; p < nreq; p++ {
		modes = append(modes, mode{"single", p}, mode{"persistent", p})
	}
	modes = append(modes, mode{"deadline", 0}, mode{"far-deadline", 0})

	for _, md := range modes {
		st := r.store.Clone()
		h, _, err := c.withLate(st, r.spec, view)
		if err != nil {
			return fmt.Errorf("open for fault run: %v", err)
		}
		desc := fmt.Sprintf("target %s, %s fault at request %d of %d", c.Target, md.name, md.p, nreq)
		count, total := 0, 0
		unbounded := ""
		var hitOp string
		switch md.name {
		case "single", "persistent":
			st.Intercept = func(q *fakes3.Req) error {
				if q.Client != "verif://tgt" {
					return nil
				}
				total++
				idx := count
				count++
				if idx == md.p || (md.name == "persistent" && idx > md.p) {
					if idx == md.p {
						hitOp = q.Op
					}
					return fakes3.ErrInjected
				}
				return nil
			}
		case "far-deadline":
			// a deadline far in the future: nothing fails, but every request must carry it (a
			// request whose context can never end waits for ever on a store that does not answer)
			if err := h.conn.Exec("update s3db_conn set deadline='2099-01-01 00:00:00'"); err != nil {
				h.close()
				return fmt.Errorf("%s: set deadline: %v", desc, err)
			}
			st.Intercept = func(q *fakes3.Req) error {
				if q.Client == "verif://tgt" {
					total++
					if !q.Bounded && unbounded == "" {
						unbounded = q.Op + " " + q.Key
					}
				}
				return nil
			}
		case "deadline":
			if err := h.conn.Exec("update s3db_conn set deadline='2001-01-01 00:00:00'"); err != nil {
				h.close()
				return fmt.Errorf("%s: set deadline: %v", desc, err)
			}
			st.Intercept = func(q *fakes3.Req) error {
				if q.Client == "verif://tgt" {
					total++
				}
				return nil
			}
		}
		logFrom := st.LogLen()
		res := h.runTarget(c, view, r.snaps)
		st.Intercept = nil
		if os.Getenv("VERIF_TRACE") != "" {
			fmt.Fprintf(os.Stderr, "== %s -> %v\n", desc, res.err)
			for _, q := range st.LogSince(logFrom) {
				fmt.Fprintf(os.Stderr, "   %s\n", q)
			}
			for _, k := range st.Keys(r.spec.Prefix) {
				if !strings.Contains(k, "/node/") {
					fmt.Fprintf(os.Stderr, "   now: %s\n", k)
				}
			}
			for _, k := range r.store.Keys(r.spec.Prefix) {
				if !strings.Contains(k, "/node/") {
					fmt.Fprintf(os.Stderr, "   was: %s\n", k)
				}
			}
			for _, q := range st.Log() {
				if q.Client == "verif://late" {
					fmt.Fprintf(os.Stderr, "   L %s\n", q)
				}
			}
		}
		if md.name == "far-deadline" {
			if unbounded != "" {
				h.close()
				return fmt.Errorf("%s: the connection has a deadline, yet the statement issued the request %s with a context that has no deadline and cannot be cancelled: if the store does not answer that request the statement blocks for ever", desc, unbounded)
			}
			if res.err != nil {
				h.close()
				return fmt.Errorf("%s: with a deadline in 2099 and no fault the statement fails: %v", desc, res.err)
			}
			o.Class("fault-free-run-with-far-deadline")
		}
		if md.name == "deadline" || md.name == "far-deadline" {
			if err := h.conn.Exec("update s3db_conn set deadline=NULL"); err != nil {
				h.close()
				return fmt.Errorf("%s: clearing the deadline: %v", desc, err)
			}
		}
		o.Class("fault-point")
		o.Class("fault-" + md.name)
		if hitOp == "GET" && (c.Target == "select" || c.Target == "range" || c.Target == "changes" || c.Target == "refresh" || c.Target == "create") && height >= 1 {
			o.NonTrivial = true
		}
		if (c.Target == "write" || c.Target == "txn" || c.Target == "vacuum") && md.p > 0 && md.p < nreq-1 {
			o.NonTrivial = true
		}
		// no unbounded retry loop (deterministic bound, no clock)
		if total > 50*nreq+1000 {
			h.close()
			return fmt.Errorf("%s: the statement issued %d requests (reference run: %d): it keeps retrying", desc, total, nreq)
		}
		if res.err != nil && strings.Contains(res.err.Error(), "HARNESS-MISMATCH") {
			h.close()
			return fmt.Errorf("%s: %v", desc, res.err)
		}
		if md.name == "deadline" && res.err == nil && res.skipped > 0 && res.after.Rows(wideCols).Equal(view.Rows(wideCols)) {
			// every statement of the continued transaction failed: committing nothing needs no request
		} else if md.name == "deadline" && res.err == nil && nreq > 0 {
			h.close()
			return fmt.Errorf("%s: the deadline is in the past and the statement needs the object store, yet it reports success", desc)
		}
		// an answer must be the complete answer
		if res.err == nil && ref.rows != nil {
			if !res.rows.Equal(ref.rows) {
				h.close()
				return fmt.Errorf("%s: the statement reports success with a different (truncated?) result.\nreference:\n%sgot:\n%s", desc, ref.rows, res.rows)
			}
		}
		// after the fault clears: same connection after refresh, and a fresh one
		// (a failed CREATE VIRTUAL TABLE makes SQLite drop its loaded schema, so the
		// table is re-connected by the next statement that names it in SQL)
		if _, err := h.conn.Query("select 1 from " + h.name + " limit 0"); err != nil {
			h.close()
			return fmt.Errorf("%s: the table cannot be used after the fault cleared: %v", desc, err)
		}
		if !c.NoRefresh {
			if err := h.conn.Refresh(h.name); err != nil {
				h.close()
				return fmt.Errorf("%s: s3db_refresh after the fault cleared fails: %v", desc, err)
			}
		} else {
			o.Class("continues-without-refresh")
		}
		same, err := h.conn.Dump(h.name)
		if err != nil {
			h.close()
			return fmt.Errorf("%s: scan on the same connection after the fault cleared (refresh: %v): %v", desc, !c.NoRefresh, err)
		}
		fresh, err := r.observe(st.Clone(), true, nil, "fresh")
		if err != nil {
			h.close()
			return fmt.Errorf("%s: a fresh connection cannot read the table afterwards: %v", desc, err)
		}
		if !same.Equal(fresh) && !(c.NoRefresh && len(lateOps) > 0) {
			h.close()
			return fmt.Errorf("%s: the refreshed connection and a fresh connection disagree.\nsame:\n%sfresh:\n%s", desc, same, fresh)
		}
		after := after
		if res.skipped > 0 {
			// a continued transaction: the statements that failed are wholly out
			after = withLateOps(res.after)
			o.Class("txn-continued-after-failed-statement")
			if res.acked {
				o.Class("txn-continued-and-committed")
			}
		}
		isBefore, isAfter := fresh.Equal(before), fresh.Equal(after)
		if !isBefore && !isAfter {
			h.close()
			return fmt.Errorf("%s: afterwards the table holds neither the contents before nor after the statement (partial effect or lost data).\nbefore:\n%safter:\n%snow:\n%s", desc, before, after, fresh)
		}
		if res.acked && !isAfter {
			h.close()
			return fmt.Errorf("%s: the write reported success but a fresh connection does not see it.\nexpected:\n%snow:\n%s", desc, after, fresh)
		}
		// a CREATE that failed can be repeated under the same name
		if c.Target == "create" && res.createFailed {
			if s3db.GetTable(res.created.Name) != nil {
				h.close()
				return fmt.Errorf("%s: CREATE failed (%v) but the table name stays registered", desc, res.err)
			}
			if err := h.conn.Create(res.created); err != nil {
				h.close()
				return fmt.Errorf("%s: the CREATE that failed under the fault cannot be repeated after the fault cleared: %v", desc, err)
			}
			o.Class("create-repeated-after-fault")
		}
		// versions recorded before the statement are still what they were
		if c.Reread && c.Target != "vacuum" {
			for _, sn := range r.snaps {
				names := parseVersionList(sn.Version)
				if len(names) == 0 {
					continue
				}
				rows, err := rowsOfVersion(h.b, "", names)
				if err != nil {
					h.close()
					return fmt.Errorf("%s: version %s, recorded before the statement, can no longer be opened: %v", desc, sn.Version, err)
				}
				if !rows.Equal(sn.Rows) {
					h.close()
					return fmt.Errorf("%s: version %s no longer gives its recorded rows.\nrecorded:\n%snow:\n%s", desc, sn.Version, sn.Rows, rows)
				}
			}
			o.ClassN("old-versions-reread-after-fault", len(r.snaps))
		}
		// and it can write again
		if err := h.conn.SetWriteTime(baseTime + 70*256); err != nil {
			h.close()
			return err
		}
		wname := h.name
		if c.RO {
			sp := h.spec
			sp.Name, sp.ReadOnly = uniqName("tgw"), false
			if err := h.conn.Create(sp); err != nil {
				h.close()
				return fmt.Errorf("%s: cannot open a read-write table after the fault cleared: %v", desc, err)
			}
			wname = sp.Name
		}
		if err := h.conn.Exec("insert into "+wname+"(k,a) values (?,?)", 999, 1); err != nil {
			h.close()
			return fmt.Errorf("%s: the connection cannot write after the fault cleared: %v", desc, err)
		}
		again, err := r.observe(st.Clone(), true, nil, "fresh2")
		h.close()
		if err != nil {
			return fmt.Errorf("%s: fresh open after the follow-up write: %v", desc, err)
		}
		found := false
		for _, row := range again {
			if row[0] == "I:999" {
				found = true
			}
		}
		if !found || len(again) != len(fresh)+1 {
			return fmt.Errorf("%s: the follow-up write is not visible to a fresh connection (or rows went missing): %d rows before it, %d after", desc, len(fresh), len(again))
		}
	}
	return nil
}

func init() { register("TestC14_Faults", runC14) }

func TestC14_Faults(t *testing.T) {
	st := newStats(t, "C14", "TestC14_Faults", "a committed prefix history by 1-2 writers (entries_per_node 2-4096), then one target statement on a fresh read-write handle: full/point/descending-range SELECT, autocommit write, BEGIN..COMMIT of 1-3 statements, s3db_refresh, s3db_version, SELECT from an s3db_changes table, s3db_vacuum, CREATE of a further table on the prefix (opens that merge when 2 versions are unmerged); for every vacuum target and a quarter of the others a further writer, opened before the target handle, commits one statement after the target handle was opened, so the target runs on a handle that has not merged a current sibling version (vacuum with a year-2100 cutoff then deletes history next to a retained, unmerged version); a fault-free reference run gives the result and the request count R; the statement is re-run for EVERY p<R with a single transport error at p and with every request from p on failing, and once with the connection deadline in the past; each run: error or exactly the reference result, bounded request count (<=50R+1000), no panic, then after clearing the fault s3db_refresh on the same connection and a fresh connection agree, show exactly the contents before or after the statement (after if it reported success), and a follow-up INSERT succeeds and is visible; and once more without any fault but with the connection's deadline set to 2099: the statement must succeed with the reference result and every request must carry a context that can end (the fake store records it): a request that cannot be cancelled waits for ever on a store that does not answer; non-trivial = fault on a GET of a scan/merge/diff on a tree of height>=1, or strictly inside a write/commit/vacuum")
	checkRapid(t, st, genC14Case, runC14)
}

// The same runner under C11: targets that commit (and so retire versions), always with the
// re-read of every recorded version after each fault run.
func genC11FaultCase(t *rapid.T) C14Case {
	c := genC14Case(t)
	c.Target = rapid.SampledFrom([]string{"write", "txn", "refresh", "create"}).Draw(t, "c11target")
	c.RO, c.Reread = false, true
	if (c.Target == "write" || c.Target == "txn") && len(c.Stmts) == 0 {
		cfg := stmtGenCfg{keys: intKeys(c.Prefix.NKeys), cols: wideCols, vals: rapid.SampledFrom([]Val{vNull(), vInt(1), vInt(2)}), multiRow: false, wIns: 4, wUpd: 3, wDel: 3}
		s := genStmt(t, cfg, "c11t")
		s.T = int64(60 * 256)
		c.Stmts = []Stmt{s}
	}
	if c.Target != "txn" {
		c.Continue = false
	}
	if c.Target == "write" && len(c.Stmts) > 1 {
		c.Stmts = c.Stmts[:1] // one autocommit statement is one commit
	}
	return c
}

func init() { register("TestC11_UnderFaults", runC14) }

func TestC11_UnderFaults(t *testing.T) {
	st := newStats(t, "C11", "TestC11_UnderFaults", "the fault-enumeration runner of C14 restricted to statements that commit and so retire the versions they merged (autocommit write, BEGIN..COMMIT, s3db_refresh and CREATE on a read-write handle over a frontier of 1-3 unmerged versions): for EVERY request index p of the statement, with a single transport error at p and with every request from p on failing, after the fault has cleared every version name recorded during the prefix history is opened again restricted to that version and must give exactly its recorded rows (no vacuum ran, so nothing may have been reclaimed); non-trivial as for C14")
	checkRapid(t, st, genC11FaultCase, runC14)
}

// Continued transactions on their own: the region where a statement fails in the middle of
// the tree update is narrow (a particular node load of a particular insert), so it gets its
// own budget instead of a twentieth of TestC14_Faults.
func genC14ContinuedCase(t *rapid.T) C14Case {
	c := genC14Case(t)
	c.Target, c.Continue, c.RO, c.Late = "txn", true, false, nil
	c.Prefix.EPN = rapid.SampledFrom([]int{2, 2, 3}).Draw(t, "cepn")
	c.Prefix.NKeys = 16
	fill := Stmt{Kind: "ins", Cols: []string{"a"}, T: -10}
	for i, k := range intKeys(16) {
		if rapid.IntRange(0, 2).Draw(t, "fillkey") != 0 {
			fill.Keys = append(fill.Keys, k)
			fill.Vals = append(fill.Vals, []Val{vInt(int64(i % 3))})
		}
	}
	if len(fill.Keys) == 0 {
		fill.Keys, fill.Vals = []Val{vInt(1)}, [][]Val{{vInt(1)}}
	}
	c.Prefix.Steps = []MWStep{{Op: "stmt", W: 0, Stmts: []Stmt{fill}}}
	// a few more single-row commits so that the tree is not the one a bulk insert builds
	cfg := stmtGenCfg{keys: intKeys(16), cols: wideCols, vals: rapid.SampledFrom([]Val{vNull(), vInt(1), vInt(2)}), multiRow: false, wIns: 6, wUpd: 1, wDel: 3}
	for i, m := 0, rapid.IntRange(0, 4).Draw(t, "nmore"); i < m; i++ {
		s := genStmt(t, cfg, "more")
		s.T = int64(100 + i)
		c.Prefix.Steps = append(c.Prefix.Steps, MWStep{Op: "stmt", W: 0, Stmts: []Stmt{s}})
	}
	c.Prefix.NWriters = 1
	c.Stmts = nil
	for i, n := 0, rapid.IntRange(2, 5).Draw(t, "nstmts"); i < n; i++ {
		s := genStmt(t, cfg, "t")
		s.T = int64(60*256 + i)
		c.Stmts = append(c.Stmts, s)
	}
	c.NoRefresh = rapid.Bool().Draw(t, "norefresh")
	c.Reread = false
	return c
}

func init() { register("TestC14_ContinuedTxn", runC14) }

func TestC14_ContinuedTxn(t *testing.T) {
	st := newStats(t, "C14", "TestC14_ContinuedTxn", "the runner of TestC14_Faults on one shape: a multi-node table (entries_per_node 2-3, up to 16 keys, a bulk insert plus 0-4 single-row commits), then BEGIN, 2-5 single-row INSERT/DELETE/UPDATE statements, COMMIT on a fresh handle, re-run for EVERY request index p with a single transport error at p and with every request from p on failing; a statement that fails with a storage error does not end the transaction: the remaining statements run and the transaction is committed; afterwards the table must hold exactly the contents before the transaction or the contents with every statement that reported success applied and every statement that reported an error not applied; then the connection goes on (with or without refresh) and a follow-up write must be visible to a fresh open; non-trivial as for TestC14_Faults")
	checkRapid(t, st, genC14ContinuedCase, runC14)
}
