package checks

// C07 — key order is a total order that matches SQLite, and equal keys are one key.

import (
	"fmt"
	"strings"
	"sync"
	"testing"
	"unicode/utf8"

	"github.com/jrhy/s3db"
	"pgregory.net/rapid"
)

// ---------------------------------------------------------------------------
// (i)+(ii) function level: Order and Layer on pairs and triples

type KeyTriple struct {
	A Val `json:"a"`
	B Val `json:"b"`
	C Val `json:"c"`
}

// related draws a value that is likely to tie with or sit next to v.
func related(t *rapid.T, v Val, label string) Val {
	switch rapid.IntRange(0, 7).Draw(t, label+".rel") {
	case 0:
		return v
	case 1: // the other numeric representation of the same number, if any
		switch v.K {
		case "i":
			return vReal(float64(v.I))
		case "r":
			f := v.Real()
			if f >= -9.2e18 && f <= 9.2e18 {
				return vInt(int64(f))
			}
		}
		return v
	case 2: // neighbour
		switch v.K {
		case "i":
			d := rapid.SampledFrom([]int64{-2, -1, 1, 2}).Draw(t, label+".d")
			if (d > 0 && v.I <= 1<<63-1-d) || (d < 0 && v.I >= -1<<63-d) {
				return vInt(v.I + d)
			}
			return v
		case "r":
			u := v.F
			if rapid.Bool().Draw(t, label+".up") {
				u++
			} else if u > 0 {
				u--
			}
			w := Val{K: "r", F: u}
			if w.Real() != w.Real() { // NaN
				return v
			}
			return w
		case "t", "b":
			b := append([]byte(nil), v.Bytes()...)
			if len(b) > 0 && rapid.Bool().Draw(t, label+".trunc") {
				b = b[:len(b)-1]
			} else {
				b = append(b, rapid.SampledFrom([]byte{0, 'a', 0xff}).Draw(t, label+".app"))
			}
			if v.K == "t" {
				if !utf8.Valid(b) { // TEXT keys are valid UTF-8 (anything else is refused, see C08)
					return v
				}
				return vText(string(b))
			}
			return vBlob(b)
		}
	case 3: // same bytes, other class
		switch v.K {
		case "t":
			return vBlob(v.Bytes())
		case "b":
			if utf8.Valid(v.Bytes()) {
				return vText(string(v.Bytes()))
			}
		}
	}
	return genKeyVal().Draw(t, label+".fresh")
}

func genTriple(t *rapid.T) KeyTriple {
	a := genKeyVal().Draw(t, "a")
	b := related(t, a, "b")
	c := related(t, rapid.SampledFrom([]Val{a, b}).Draw(t, "base"), "c")
	return KeyTriple{a, b, c}
}

func sign(i int) int {
	switch {
	case i < 0:
		return -1
	case i > 0:
		return 1
	}
	return 0
}

func keyOf(v Val) *s3db.Key { return s3db.NewKey(v.Arg()) }

// native SQLite as reference comparator (one connection per process)
var (
	cmpOnce sync.Once
	cmpConn *Conn
)

func sqliteCmp(a, b Val) (int, error) {
	cmpOnce.Do(func() { cmpConn = newConn() })
	rows, err := cmpConn.Query("select ?1 < ?2, ?1 = ?2, ?1 > ?2", a.Arg(), b.Arg())
	if err != nil {
		return 0, err
	}
	r := rows[0]
	switch {
	case r[0] == "I:1" && r[1] == "I:0" && r[2] == "I:0":
		return -1, nil
	case r[0] == "I:0" && r[1] == "I:1" && r[2] == "I:0":
		return 0, nil
	case r[0] == "I:0" && r[1] == "I:0" && r[2] == "I:1":
		return 1, nil
	}
	return 0, fmt.Errorf("sqlite gives %v for %v vs %v", r, a, b)
}

func runKeyTriple(c KeyTriple, o *Obs) error {
	vals := []Val{c.A, c.B, c.C}
	for _, v := range vals {
		if v.K == "n" || (v.K == "r" && v.Real() != v.Real()) {
			return nil // NULL and NaN are not keys
		}
	}
	ks := []*s3db.Key{keyOf(c.A), keyOf(c.B), keyOf(c.C)}
	ord := func(i, j int) int { return sign(ks[i].Order(ks[j])) }
	for i := 0; i < 3; i++ {
		if ord(i, i) != 0 {
			return fmt.Errorf("%v does not compare equal to itself", vals[i])
		}
		for j := 0; j < 3; j++ {
			if i == j {
				continue
			}
			got := ord(i, j)
			if got != -ord(j, i) {
				return fmt.Errorf("order is not antisymmetric: Order(%v,%v)=%d but Order(%v,%v)=%d", vals[i], vals[j], got, vals[j], vals[i], ord(j, i))
			}
			want := refCmp(vals[i], vals[j])
			if i < j {
				sq, err := sqliteCmp(vals[i], vals[j])
				if err != nil {
					return fmt.Errorf("harness: %v", err)
				}
				if sq != want {
					return fmt.Errorf("harness bug: reference comparator says %d, SQLite says %d for %v vs %v", want, sq, vals[i], vals[j])
				}
			}
			if got != want {
				return fmt.Errorf("Order(%v,%v)=%d but SQLite orders them %d", vals[i], vals[j], got, want)
			}
			cross := vals[i].K != vals[j].K
			big := func(v Val) bool {
				return (v.K == "i" && (v.I >= 1<<53 || v.I <= -(1<<53))) || (v.K == "r" && (v.Real() >= 9007199254740992 || v.Real() <= -9007199254740992))
			}
			if cross || big(vals[i]) || big(vals[j]) {
				o.NonTrivial = true
			}
			if cross && want == 0 {
				o.Class("cross-class-tie")
			}
			if got == 0 {
				// equal keys must be placed on the same tree level for every branch factor
				for _, bf := range []uint{2, 3, 4, 5, 7, 8, 16, 64, 4096} {
					if la, lb := ks[i].Layer(bf), ks[j].Layer(bf); la != lb {
						return fmt.Errorf("%v and %v compare equal but are placed on tree levels %d and %d (entries_per_node=%d): one cannot be found where the other was stored", vals[i], vals[j], la, lb, bf)
					}
				}
			}
		}
	}
	// transitivity
	for i := 0; i < 3; i++ {
		for j := 0; j < 3; j++ {
			for k := 0; k < 3; k++ {
				if ord(i, j) <= 0 && ord(j, k) <= 0 && ord(i, k) > 0 {
					return fmt.Errorf("order is not transitive: %v <= %v <= %v but %v > %v", vals[i], vals[j], vals[k], vals[i], vals[k])
				}
				if ord(i, j) == 0 && ord(j, k) == 0 && ord(i, k) != 0 {
					return fmt.Errorf("equality is not transitive: %v = %v = %v", vals[i], vals[j], vals[k])
				}
			}
		}
	}
	return nil
}

func init() { register("TestC07_Order", runKeyTriple) }

func TestC07_Order(t *testing.T) {
	st := newStats(t, "C07", "TestC07_Order", "triples of key values (boundary-seeded INTEGER incl. +-2^53+-1, 2^62, min/max; REAL incl. +-0, integral, >2^53, +-2^63 edges, subnormal, +-Inf; TEXT/BLOB incl. empty, prefixes, bytes>=0x80), the 2nd and 3rd derived from the others (same value, other numeric representation, neighbour, same bytes in the other class) so ties are common: Order is reflexive, antisymmetric, transitive, agrees in sign with SQLite (native SQLite evaluating ?<? ?=? ?>? and the harness comparator, which must agree with each other), and equal keys get equal tree levels for entries_per_node 2..4096; non-trivial = a cross-class comparison or a magnitude >= 2^53")
	checkRapid(t, st, genTriple, runKeyTriple)
}

// ---------------------------------------------------------------------------
// (iii) SQL level: the differential runner of C06 over keys with ties

func genC07SQLCase(t *rapid.T) C06Case {
	c := C06Case{
		// the key column in any position of the declaration (statements name their columns)
		Cols:     rapid.SampledFrom([][]string{{"k", "a"}, {"a", "k"}, {"b", "a", "k"}, {"a", "k", "b"}}).Draw(t, "cols"),
		EPN:      rapid.SampledFrom([]int{2, 2, 3, 4, 8, 4096}).Draw(t, "epn"),
		NKeys:    200,
		KeyClass: true,
	}
	n := rapid.IntRange(3, 60).Draw(t, "n")
	var pool []Val
	keyv := func() Val {
		var v Val
		if len(pool) > 0 && rapid.IntRange(0, 2).Draw(t, "reuse") == 0 {
			v = related(t, rapid.SampledFrom(pool).Draw(t, "base"), "rel")
		} else {
			v = genKeyVal().Draw(t, "key")
		}
		if v.isEmptyText() { // known finding K1 (C08): empty TEXT reads back as NULL
			v = vText("e")
		}
		if v.K == "r" && v.Real() != v.Real() {
			v = vReal(0.5)
		}
		pool = append(pool, v)
		return v
	}
	for i := 0; i < n; i++ {
		switch rapid.IntRange(0, 9).Draw(t, "op") {
		case 0:
			c.Ops = append(c.Ops, SQLOp{Kind: "sel", Q: "select k, a from %T order by k", Ordered: true})
		case 1:
			c.Ops = append(c.Ops, SQLOp{Kind: "sel", Q: "select k, a from %T where k = ?", Args: []Val{keyv()}})
		case 2:
			op := rapid.SampledFrom([]string{"<", "<=", ">", ">="}).Draw(t, "cmp")
			c.Ops = append(c.Ops, SQLOp{Kind: "sel", Q: "select k from %T where k " + op + " ? order by k", Args: []Val{keyv()}, Ordered: true})
		case 3:
			if rapid.IntRange(0, 3).Draw(t, "re") == 0 {
				c.Ops = append(c.Ops, SQLOp{Kind: "reconnect"})
			}
		case 4:
			if rapid.IntRange(0, 9).Draw(t, "nullkey") == 0 {
				c.Ops = append(c.Ops, SQLOp{Kind: "ins", Q: "insert into %T(k,a) values (?,?)", Args: []Val{vNull(), vInt(1)}, Rows: 1})
			} else {
				c.Ops = append(c.Ops, SQLOp{Kind: "del", Q: "delete from %T where k = ?", Args: []Val{keyv()}})
			}
		default:
			c.Ops = append(c.Ops, SQLOp{Kind: "ins", Q: "insert into %T(k,a) values (?,?)", Args: []Val{keyv(), vInt(int64(i))}, Rows: 1})
		}
	}
	c.Ops = append(c.Ops,
		SQLOp{Kind: "sel", Q: "select k, a from %T order by k", Ordered: true},
		SQLOp{Kind: "reconnect"},
		SQLOp{Kind: "sel", Q: "select k, a from %T order by k", Ordered: true})
	return c
}

func runC07SQL(c C06Case, o *Obs) error {
	err := runC06(c, o)
	// non-triviality for this sub-check: an equal-key INSERT refused on a tree of height >= 1
	// is recorded by runC06 as a constraint class together with ops-on-height classes
	if o.Classes["constraint:constraint-key"] > 0 && (o.Classes["ops-on-height>=2"] > 0 || o.Classes["range-or-desc-on-height>=1"] > 0) {
		o.NonTrivial = true
	} else {
		o.NonTrivial = false
	}
	if err != nil && strings.Contains(err.Error(), "harness bug") {
		return err
	}
	return err
}

func init() { register("TestC07_SQL", runC07SQL) }

func TestC07_SQL(t *testing.T) {
	st := newStats(t, "C07", "TestC07_SQL", "tables with entries_per_node 2..4096 and the key column first, last or in the middle of the declaration, filled with 3-60 generated keys where every third key is derived from an earlier one (equal value in the other numeric representation, neighbour, same bytes in the other class), with deletes, NULL-key inserts, reconnects; after every statement outcome class and full contents, and for ORDER BY / = / < <= > >= queries the result sequence, must equal a native WITHOUT ROWID table (differential runner of C06); non-trivial = an equal-key INSERT refused while the tree has height >= 1")
	st.Assume = append(st.Assume, "empty TEXT keys are replaced (known finding K1 under C08)")
	checkRapid(t, st, genC07SQLCase, runC07SQL)
}

// The same generator under C06: "keys of all five storage classes" includes keys that are
// equal across the two numeric representations (and of magnitude >= 2^53); the generator
// of TestC06_Diff keeps its keys pairwise distinct, so those statements come from here.
func init() { register("TestC06_Twins", runC07SQL) }

func TestC06_Twins(t *testing.T) {
	st := newStats(t, "C06", "TestC06_Twins", "the differential runner of C06 over the key generator of TestC07_SQL: 3-60 generated keys per table where every third key is derived from an earlier one (equal value in the other numeric representation incl. magnitudes >= 2^53, neighbour, same bytes in the other class), INSERT (also of NULL keys), DELETE, point/range/ORDER BY queries, reconnects, entries_per_node 2..4096: statement outcome classes (success / key constraint) and contents after every statement must equal a native WITHOUT ROWID table; non-trivial = an equal-key INSERT refused while the tree has height >= 1")
	st.Assume = append(st.Assume, "empty TEXT keys are replaced (known finding K1 under C08)", "the key column is compared up to SQLite equality (known finding K5 under C07: a re-inserted equal key keeps its first representation)")
	checkRapid(t, st, genC07SQLCase, runC07SQL)
}
