package checks

// C01, function level: algebraic laws of the row merge function on row states
// that are reachable by applying generated statement sequences (never arbitrary
// protobufs: unreachable states would only produce false alarms).

import (
	"context"
	"fmt"
	"sort"
	"strings"
	"testing"
	"time"

	"github.com/jrhy/s3db"
	crdtpub "github.com/jrhy/s3db/kv/crdt"
	v1proto "github.com/jrhy/s3db/proto/v1"
	"pgregory.net/rapid"

	"verif/fakes3"
)

type MergeLawCase struct {
	Seqs [3][]Stmt `json:"seqs"` // three writers, each a statement sequence on key 1
}

func genMergeLawCase(t *rapid.T) MergeLawCase {
	var c MergeLawCase
	cfg := stmtGenCfg{keys: intKeys(1), cols: wideCols, vals: smallVals(), multiRow: false, wIns: 4, wUpd: 4, wDel: 3}
	n := 0
	for w := 0; w < 3; w++ {
		m := rapid.IntRange(1, 6).Draw(t, "n")
		for i := 0; i < m; i++ {
			s := genStmt(t, cfg, "s")
			n++
			s.T = int64(rapid.IntRange(0, 30).Draw(t, "slot")*64 + n) // unique over all three writers
			c.Seqs[w] = append(c.Seqs[w], s)
		}
	}
	return c
}

// rowState applies a statement sequence to a private table and returns the
// stored entry for key 1 (nil if none).
func rowState(seq []Stmt) (*crdtpub.Value, error) {
	bucket, _ := newBucket(nil)
	defer fakes3.Unregister(bucket)
	conn := newConn()
	defer conn.Close()
	tn := uniqName("ml")
	if err := conn.Create(TableSpec{Name: tn, Columns: mwCols, Bucket: bucket, Client: "ml"}); err != nil {
		return nil, err
	}
	for _, s := range seq {
		if !s.wellFormed() {
			continue
		}
		// write times with a sub-second part (what wall-clock write times have): T counts eighths
		// of a second, so statements with neighbouring T are less than a second apart
		wt := time.Unix(baseTime+s.T/8, (s.T%8)*125_000_000).UTC().Format("2006-01-02 15:04:05.000")
		if err := conn.Exec("update s3db_conn set write_time=?", wt); err != nil {
			return nil, err
		}
		q, args := s.SQL(tn, "k")
		if err := conn.Exec(q, args...); err != nil && errClass(err) == "error" {
			return nil, err
		}
	}
	vt := s3db.GetTable(tn)
	var v crdtpub.Value
	ok, err := vt.Tree.Root.Get(context.Background(), s3db.NewKey(int64(1)), &v)
	if err != nil || !ok {
		return nil, err
	}
	return &v, nil
}

// canon renders an entry with absolute times.
func canonEntry(v crdtpub.Value) string {
	row, _ := v.Value.(*v1proto.Row)
	if row == nil {
		return "<no row>"
	}
	var sb strings.Builder
	fmt.Fprintf(&sb, "mod=%d deleted=%v@%d", v.ModEpochNanos, row.Deleted, v.ModEpochNanos+int64(row.DeleteUpdateOffset.AsDuration()))
	names := make([]string, 0, len(row.ColumnValues))
	for n := range row.ColumnValues {
		names = append(names, n)
	}
	sort.Strings(names)
	for _, n := range names {
		cv := row.ColumnValues[n]
		fmt.Fprintf(&sb, " %s=%s@%d", n, valOfProto(cv.Value).Cell(), v.ModEpochNanos+int64(cv.UpdateOffset.AsDuration()))
	}
	return sb.String()
}

func runMergeLaws(c MergeLawCase, o *Obs) error {
	var st []crdtpub.Value
	for w := 0; w < 3; w++ {
		v, err := rowState(c.Seqs[w])
		if err != nil {
			return fmt.Errorf("building the state of writer %d: %v", w, err)
		}
		if v == nil {
			return nil // this writer never created the row: nothing to merge
		}
		st = append(st, *v)
	}
	m := s3db.VerifMergeValues
	a, b, cc := st[0], st[1], st[2]
	if x, y := canonEntry(m(a, b)), canonEntry(m(b, a)); x != y {
		return fmt.Errorf("merge is not commutative.\na: %s\nb: %s\nm(a,b): %s\nm(b,a): %s", canonEntry(a), canonEntry(b), x, y)
	}
	if x, y := canonEntry(m(m(a, b), cc)), canonEntry(m(a, m(b, cc))); x != y {
		return fmt.Errorf("merge is not associative.\na: %s\nb: %s\nc: %s\nm(m(a,b),c): %s\nm(a,m(b,c)): %s", canonEntry(a), canonEntry(b), canonEntry(cc), x, y)
	}
	if x, y := canonEntry(m(m(a, b), cc)), canonEntry(m(m(cc, a), b)); x != y {
		return fmt.Errorf("merge depends on the order of three states.\nm(m(a,b),c): %s\nm(m(c,a),b): %s", x, y)
	}
	if x, y := canonEntry(m(a, a)), canonEntry(a); x != y {
		return fmt.Errorf("merge is not idempotent.\na: %s\nm(a,a): %s", y, x)
	}
	ab := m(a, b)
	if x, y := canonEntry(m(ab, a)), canonEntry(ab); x != y {
		return fmt.Errorf("merging an ancestor again changes the result.\nm(a,b): %s\nm(m(a,b),a): %s", y, x)
	}
	ra, _ := a.Value.(*v1proto.Row)
	rb, _ := b.Value.(*v1proto.Row)
	if ra != nil && rb != nil && (ra.Deleted != rb.Deleted || len(ra.ColumnValues) != len(rb.ColumnValues)) {
		o.NonTrivial = true
	}
	return nil
}

func init() { register("TestC01_MergeLaws", runMergeLaws) }

func TestC01_MergeLaws(t *testing.T) {
	st := newStats(t, "C01", "TestC01_MergeLaws", "three row states of one key, each reached by applying a generated sequence of 1-6 INSERT/UPDATE/DELETE statements (write times unique over all three, arbitrary order) to a private table; the row merge function (exported under the verif tag) must be commutative, associative, independent of the order of three states, idempotent, and absorb an ancestor merged again, compared as (status, status time, per-column value and absolute time, modification time); non-trivial = the two first states differ in status or column set")
	checkRapid(t, st, genMergeLawCase, runMergeLaws)
}
