package checks

// C10/C09, kv level: the version-side cutoff with explicit creation times.
// At SQL level a version's creation time is the wall clock, so only "no
// version eligible" and "every version eligible" occur there; here chains and
// merges of versions are created at chosen times through kv.Open(..., when)
// and kv.DeleteHistoricVersions is called with cutoffs before, at and after
// those times.

import (
	"context"
	"fmt"
	"sort"
	"strings"
	"testing"
	"time"

	"github.com/jrhy/s3db/kv"
	"pgregory.net/rapid"

	"verif/fakes3"
)

type CutoffStep struct {
	Op   string `json:"op"` // commit (on a branch), merge (reopen: merges all current), vacuum
	B    int    `json:"b"`  // branch 0/1
	Key  int    `json:"key"`
	Back bool   `json:"back"` // set the key back to an earlier value (shared nodes)
	Cut  int    `json:"cut"`  // vacuum: index into the creation times
	Off  int    `json:"off"`  // vacuum: -1, 0, +1 second relative to that time
	// Stale (vacuum): the vacuuming handle is NOT re-opened first: it has not merged what the
	// other branch committed since; versions outside its ancestry that the cutoff does not
	// cover must stay readable all the same (the reclaim clause is not demanded of it)
	Stale bool `json:"stale,omitempty"`
	// CutOther (vacuum): the cutoff is the opening time of the OTHER branch's handle (+Off): what
	// that branch has committed since is not covered, what both started from is
	CutOther bool `json:"cut_other,omitempty"`
}

type CutoffCase struct {
	BF    int          `json:"bf"`
	Steps []CutoffStep `json:"steps"`
}

func genCutoffCase(t *rapid.T) CutoffCase {
	c := CutoffCase{BF: rapid.SampledFrom([]int{2, 3, 4096}).Draw(t, "bf")}
	n := rapid.IntRange(3, 14).Draw(t, "n")
	for i := 0; i < n; i++ {
		s := CutoffStep{B: rapid.IntRange(0, 1).Draw(t, "b"), Key: rapid.IntRange(1, 6).Draw(t, "key"), Back: rapid.Bool().Draw(t, "back"),
			Cut: rapid.IntRange(0, 30).Draw(t, "cut"), Off: rapid.IntRange(-1, 1).Draw(t, "off")}
		switch r := rapid.IntRange(0, 9).Draw(t, "op"); {
		case r < 5:
			s.Op = "commit"
		case r < 7:
			s.Op = "merge"
		default:
			s.Op = "vacuum"
			s.Stale = rapid.IntRange(0, 2).Draw(t, "stale") == 0
		}
		c.Steps = append(c.Steps, s)
	}
	c.Steps = append(c.Steps, CutoffStep{Op: "vacuum", Cut: rapid.IntRange(0, 30).Draw(t, "lastcut"), Off: rapid.IntRange(-1, 1).Draw(t, "lastoff")})
	if rapid.IntRange(0, 3).Draw(t, "stalepattern") == 0 {
		// Targeted region: both branches start from one version; branch a changes one part of
		// the tree; branch b, without seeing that, commits twice (elsewhere, then the same part),
		// so its first version is retired by its second and lies outside a's ancestry; a, still
		// not having merged b, deletes history with the cutoff at b's opening time: the common
		// start is covered, b's two versions are not
		a := rapid.IntRange(0, 1).Draw(t, "spa")
		b := 1 - a
		var pat []CutoffStep
		for k := 1; k <= 6; k++ {
			pat = append(pat, CutoffStep{Op: "commit", B: a, Key: k})
		}
		pat = append(pat,
			CutoffStep{Op: "merge", B: a}, CutoffStep{Op: "merge", B: b},
			CutoffStep{Op: "commit", B: a, Key: 1},
			CutoffStep{Op: "commit", B: b, Key: 6}, CutoffStep{Op: "commit", B: b, Key: 1},
			CutoffStep{Op: "vacuum", B: a, Stale: true, CutOther: true, Off: rapid.IntRange(-1, 0).Draw(t, "spoff")})
		pos := rapid.IntRange(0, len(c.Steps)).Draw(t, "sppos")
		c.Steps = append(append(append([]CutoffStep{}, c.Steps[:pos]...), pat...), c.Steps[pos:]...)
	}
	return c
}

type verInfo struct {
	created int64
	parents []string
	content map[string]string
}

func runCutoff(c CutoffCase, o *Obs) error {
	ctx := context.Background()
	store := fakes3.New()
	client := store.Client("verif://kvc")
	prefix := "cut/"
	cfg := func() kv.Config {
		return kv.Config{Storage: &kv.S3BucketInfo{EndpointURL: "verif://kvc", BucketName: "b", Prefix: "cut"}, KeysLike: "", ValuesLike: "", BranchFactor: uint(c.BF)}
	}
	clock := int64(1000)
	vers := map[string]*verInfo{}
	var times []int64
	type branch struct {
		db      *kv.DB
		content map[string]string
		when    int64 // the handle's opening time: the creation time of every version it commits
	}
	open := func() (*branch, error) {
		clock += 10
		names := trimAll(store.Keys(prefix+"root/current/"), prefix+"root/current/")
		content := map[string]string{}
		for _, n := range names {
			if v, ok := vers[n]; ok {
				for k, val := range v.content {
					// values carry their write time: later wins
					if old, ok := content[k]; !ok || val > old {
						content[k] = val
					}
				}
			}
		}
		db, err := kv.Open(ctx, client, cfg(), kv.OpenOptions{}, time.Unix(clock, 0))
		if err != nil {
			return nil, err
		}
		roots, _ := db.Roots()
		for _, r := range roots {
			if _, ok := vers[r]; !ok {
				cp := map[string]string{}
				for k, v := range content {
					cp[k] = v
				}
				// a version committed by this open (the merge of the current versions)
				if got := versionCreated(store, prefix, r); got != clock {
					return nil, fmt.Errorf("the open at time %d committed version %s, which records the creation time %d ('when' marks the creation time of the new version)", clock, r, got)
				}
				vers[r] = &verInfo{created: clock, parents: names, content: cp}
				times = append(times, clock)
			}
		}
		return &branch{db, content, clock}, nil
	}
	br := make([]*branch, 2)
	for i := range br {
		b, err := open()
		if err != nil {
			return err
		}
		br[i] = b
	}
	defer func() {
		for _, b := range br {
			if b != nil {
				b.db.Cancel()
			}
		}
	}()
	wtime := int64(0)
	readVersion := func(name string) (map[string]string, error) {
		db, err := kv.Open(ctx, client, cfg(), kv.OpenOptions{ReadOnly: true, OnlyVersions: []string{name}}, time.Unix(clock, 0))
		if err != nil {
			return nil, err
		}
		out := map[string]string{}
		if db.Size() == 0 {
			return out, nil
		}
		cur, err := db.Cursor(ctx)
		if err != nil {
			return nil, err
		}
		if err := cur.Min(ctx); err != nil {
			return nil, err
		}
		for {
			k, v, ok := cur.Get()
			if !ok {
				break
			}
			out[fmt.Sprint(k)] = fmt.Sprint(v.Value)
			if err := cur.Forward(ctx); err != nil {
				return nil, err
			}
		}
		return out, nil
	}
	for i, s := range c.Steps {
		where := fmt.Sprintf("step %d (%s)", i, s.Op)
		b := br[s.B%2]
		switch s.Op {
		case "commit":
			wtime++
			key := fmt.Sprintf("k%d", s.Key)
			val := fmt.Sprintf("%06d-v", wtime)
			if s.Back {
				val = fmt.Sprintf("%06d-same", wtime) // differs only in the time prefix
			}
			if err := b.db.Set(ctx, time.Unix(wtime, 0), key, val); err != nil {
				return fmt.Errorf("%s: %v", where, err)
			}
			b.content[key] = val
			before, _ := b.db.Roots()
			name, err := b.db.Commit(ctx)
			if err != nil {
				return fmt.Errorf("%s: %v", where, err)
			}
			if name != nil {
				if _, ok := vers[*name]; !ok {
					cp := map[string]string{}
					for k, v := range b.content {
						cp[k] = v
					}
					if got := versionCreated(store, prefix, *name); got != b.when {
						return fmt.Errorf("%s: version %s was committed through a handle opened at time %d but records the creation time %d ('when' marks the creation time of the new version)", where, *name, b.when, got)
					}
					vers[*name] = &verInfo{created: b.when, parents: before, content: cp}
				}
			}
		case "merge":
			b.db.Cancel()
			nb, err := open()
			if err != nil {
				return fmt.Errorf("%s: %v", where, err)
			}
			br[s.B%2] = nb
		case "vacuum":
			if len(times) == 0 {
				continue
			}
			cut := times[s.Cut%len(times)] + int64(s.Off)
			if s.CutOther {
				cut = br[(s.B+1)%2].when + int64(s.Off)
			}
			// vacuum from a handle that has merged everything, or (Stale) from the branch's
			// handle as it is
			nb := b
			if !s.Stale {
				b.db.Cancel()
				var err error
				nb, err = open()
				if err != nil {
					return fmt.Errorf("%s: %v", where, err)
				}
				br[s.B%2] = nb
			} else {
				o.Class("vacuum-from-a-handle-that-has-not-merged-the-other-branch")
			}
			present := map[string]bool{}
			for _, n := range append(trimAll(store.Keys(prefix+"root/current/"), prefix+"root/current/"), trimAll(store.Keys(prefix+"root/merged/"), prefix+"root/merged/")...) {
				present[n] = true
			}
			if err := kv.DeleteHistoricVersions(ctx, nb.db, time.Unix(cut, 0)); err != nil {
				return fmt.Errorf("%s: DeleteHistoricVersions(%d): %v", where, cut, err)
			}
			o.Class("vacuum")
			after := map[string]bool{}
			for _, n := range append(trimAll(store.Keys(prefix+"root/current/"), prefix+"root/current/"), trimAll(store.Keys(prefix+"root/merged/"), prefix+"root/merged/")...) {
				after[n] = true
			}
			children := map[string][]string{}
			for n, v := range vers {
				if !present[n] {
					continue
				}
				for _, p := range v.parents {
					children[p] = append(children[p], n)
				}
			}
			var names []string
			for n := range present {
				names = append(names, n)
			}
			sort.Strings(names)
			deleted, kept := 0, 0
			for _, n := range names {
				v := vers[n]
				if v == nil {
					continue
				}
				// C09: a version created at or after the cutoff is still there and gives its content
				if v.created >= cut {
					if !after[n] {
						return fmt.Errorf("%s cutoff=%d: version %s was created at %d, not before the cutoff, but its object was deleted", where, cut, n, v.created)
					}
				}
				if after[n] {
					kept++
					got, err := readVersion(n)
					if err != nil {
						return fmt.Errorf("%s cutoff=%d: retained version %s (created %d) no longer opens: %v", where, cut, n, v.created, err)
					}
					if fmt.Sprint(got) != fmt.Sprint(v.content) {
						return fmt.Errorf("%s cutoff=%d: retained version %s reads %v, it held %v", where, cut, n, got, v.content)
					}
				} else {
					deleted++
				}
				// C10: a version all of whose successors were created strictly before the cutoff is gone
				ch := children[n]
				if len(ch) > 0 && after[n] && !s.Stale {
					all := true
					for _, cn := range ch {
						if vers[cn] == nil || vers[cn].created >= cut {
							all = false
						}
					}
					inCurrent := false
					for _, k := range store.Keys(prefix + "root/current/") {
						if strings.HasSuffix(k, "/"+n) {
							inCurrent = true
						}
					}
					if all && !inCurrent {
						return fmt.Errorf("%s cutoff=%d: version %s (created %d) was superseded before the cutoff (successors %v all created before it) but is still in the bucket", where, cut, n, v.created, ch)
					}
				}
			}
			if deleted > 0 && kept > 1 {
				o.NonTrivial = true
				o.Class("cutoff-between-creation-times")
			}
			// the other branch picks up the vacuumed state before it goes on (a handle that keeps
			// building on a version whose objects the cutoff allowed to delete is outside the property)
			other := (s.B + 1) % 2
			br[other].db.Cancel()
			ob, err := open()
			if err != nil {
				return fmt.Errorf("%s: re-open of the other branch after vacuum: %v", where, err)
			}
			br[other] = ob
		}
	}
	return nil
}

func versionCreated(st *fakes3.Store, prefix, name string) int64 {
	v, _, err := loadVersion(st, prefix, name)
	if err != nil || v.Created == nil {
		return 0
	}
	return v.Created.Unix()
}

func init() { register("TestC10_KVCutoff", runCutoff) }

func TestC10_KVCutoff(t *testing.T) {
	st := newStats(t, "C10", "TestC10_KVCutoff", "directly on kv.DB: two branches commit, merge (re-open) and vacuum, every handle opened at a chosen creation time (kv.Open(..., when)), values that revisit earlier content so nodes are shared; kv.DeleteHistoricVersions with cutoffs one second before, exactly at and one second after each creation time; afterwards every version created at or after the cutoff must still exist, every retained version must re-open restricted to itself and give its recorded content (so none refers to a deleted node), and every retired version all of whose successors were created strictly before the cutoff must be gone; non-trivial = a vacuum that deleted some versions and kept more than one")
	checkRapid(t, st, genCutoffCase, runCutoff)
}

// The same runner under C11 ("... returns exactly those rows ... until a vacuum whose cutoff
// covers them"): at SQL level a version's creation time is the wall clock, so cutoffs between
// creation times only exist here, where handles are opened at chosen times.
func init() { register("TestC11_KVCutoff", runCutoff) }

func TestC11_KVCutoff(t *testing.T) {
	st := newStats(t, "C11", "TestC11_KVCutoff", "the kv-level runner of TestC10_KVCutoff under C11: branches commit, merge (re-open merges all current versions: the merge version's creation time is the time of that open) and history is deleted with cutoffs one second before, exactly at and one second after each creation time; every version created at or after the cutoff must still exist and, opened restricted to itself, give its recorded content; non-trivial = a vacuum that deleted some versions and kept more than one")
	checkRapid(t, st, genCutoffCase, runCutoff)
}
