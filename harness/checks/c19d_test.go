package checks

// C19 (v) — a connection whose object store does not answer holds up nobody else. The fake
// store keeps one request of connection A's CREATE VIRTUAL TABLE waiting (the harness owns the
// stall: it ends when the harness says so); meanwhile connection B, on another prefix, runs its
// own statements. They must all return while A is still waiting: if they cannot, B waits for A,
// and with a store that never answers A that is for ever (and A's deadline, not B's, would
// govern B's statements).

import (
	"fmt"
	"sync"
	"testing"
	"time"

	"verif/fakes3"

	"pgregory.net/rapid"
)

type StalledCase struct {
	StallAt int      `json:"stall_at"` // which request of A's CREATE is kept waiting
	BOps    []string `json:"b_ops"`    // create refresh version vacuum changes insert select drop
	ARO     bool     `json:"a_ro"`
}

func genStalledCase(t *rapid.T) StalledCase {
	c := StalledCase{StallAt: rapid.IntRange(0, 2).Draw(t, "stallat"), ARO: rapid.Bool().Draw(t, "aro")}
	n := rapid.IntRange(1, 6).Draw(t, "n")
	for i := 0; i < n; i++ {
		c.BOps = append(c.BOps, rapid.SampledFrom([]string{"create", "refresh", "version", "vacuum", "changes", "insert", "select", "drop"}).Draw(t, "bop"))
	}
	return c
}

func runStalled(c StalledCase, o *Obs) error {
	bucket, store := newBucket(nil)
	defer fakes3.Unregister(bucket)
	// something for A to open
	seed := newConn()
	sa := TableSpec{Name: uniqName("sta0"), Columns: "k primary key, a", Bucket: bucket, Client: "seed", Prefix: "pa", EPN: 2}
	if err := seed.Create(sa); err != nil {
		seed.Close()
		return err
	}
	for i := 1; i <= 5; i++ {
		if err := seed.Exec("insert into "+sa.Name+" values (?,?)", i, i); err != nil {
			seed.Close()
			return err
		}
	}
	seed.Close()

	connB := newConn()
	// connections are closed only once nobody can be using them any more (a connection that
	// could not finish is left alone: the process ends soon after a violation)
	aRunning, bRunning := false, false
	var connA *Conn
	defer func() {
		if !bRunning {
			connB.Close()
		}
		if connA != nil && !aRunning {
			connA.Close()
		}
	}()
	sb := TableSpec{Name: uniqName("stb"), Columns: "k primary key, a", Bucket: bucket, Client: "sb", Prefix: "pb", EPN: 2}
	if err := connB.Create(sb); err != nil {
		return err
	}
	if err := connB.Exec("insert into "+sb.Name+" values (1,1)"); err != nil {
		return err
	}

	var mu sync.Mutex
	n := 0
	stalled := make(chan struct{})
	release := make(chan struct{})
	var once sync.Once
	store.Intercept = func(q *fakes3.Req) error {
		if q.Client != "verif://sa" {
			return nil
		}
		mu.Lock()
		idx := n
		n++
		mu.Unlock()
		if idx == c.StallAt {
			once.Do(func() { close(stalled) })
			<-release
		}
		return nil
	}
	// (the store belongs to this case alone; the interceptor is never taken off, so that nothing
	// is written while a connection that could not finish is still running)

	connA = newConn()
	aDone := make(chan error, 1)
	aRunning = true
	go func() {
		spec := sa
		spec.Name, spec.Client, spec.ReadOnly = uniqName("sta"), "sa", c.ARO
		aDone <- connA.Create(spec)
	}()
	released := false
	rel := func() {
		if !released {
			released = true
			close(release)
		}
	}
	defer rel()
	select {
	case <-stalled:
	case err := <-aDone:
		// the CREATE needed fewer requests than StallAt
		aRunning = false
		if err != nil {
			return fmt.Errorf("connection A: create: %v", err)
		}
		return nil
	case <-time.After(60 * time.Second):
		return fmt.Errorf("HARNESS-STALL: connection A's CREATE neither reached its request %d nor finished within 60 s", c.StallAt)
	}

	bDone := make(chan error, 1)
	var cur string
	var curMu sync.Mutex
	bRunning = true
	go func() {
		extra := ""
		for i, op := range c.BOps {
			curMu.Lock()
			cur = fmt.Sprintf("op %d (%s)", i, op)
			curMu.Unlock()
			var err error
			switch op {
			case "create":
				if extra != "" {
					continue
				}
				sp := sb
				sp.Name = uniqName("stb2")
				sp.Prefix = "pb2"
				if err = connB.Create(sp); err == nil {
					extra = sp.Name
				}
			case "drop":
				if extra == "" {
					continue
				}
				err = connB.Drop(extra)
				extra = ""
			case "refresh":
				err = connB.Refresh(sb.Name)
			case "version":
				_, err = connB.Version(sb.Name)
			case "vacuum":
				err = connB.Vacuum(sb.Name, baseTime-1000)
			case "changes":
				cn := uniqName("stc")
				if err = connB.Exec(fmt.Sprintf("create virtual table %s using s3db_changes(table='%s', from='[]')", cn, sb.Name)); err == nil {
					if _, err = connB.Query("select * from " + cn); err == nil {
						err = connB.Exec("drop table " + cn)
					}
				}
			case "insert":
				err = connB.Exec("insert into "+sb.Name+" values (?,?)", 100+i, i)
			case "select":
				_, err = connB.Query("select * from " + sb.Name)
			}
			if err != nil {
				bDone <- fmt.Errorf("connection B, op %d (%s): %v", i, op, err)
				return
			}
		}
		bDone <- nil
	}()
	select {
	case err := <-bDone:
		bRunning = false
		if err != nil {
			return err
		}
	case <-time.After(60 * time.Second):
		curMu.Lock()
		at := cur
		curMu.Unlock()
		rel()
		return fmt.Errorf("DEADLOCK-OR-HANG: connection B's %s has not returned after 60 s while connection A's CREATE VIRTUAL TABLE is waiting for an answer to request %d from its object store: B waits for A (B's statements: %v)", at, c.StallAt, c.BOps)
	}
	o.ClassN("statements-of-B-while-A-waits", len(c.BOps))
	o.NonTrivial = true
	rel()
	select {
	case err := <-aDone:
		aRunning = false
		if err != nil {
			return fmt.Errorf("connection A: create after its store answered: %v", err)
		}
	case <-time.After(60 * time.Second):
		return fmt.Errorf("DEADLOCK-OR-HANG: connection A's CREATE has not returned 60 s after its store answered")
	}
	return nil
}

func init() { register("TestC19_StalledOpen", runStalled) }

func TestC19_StalledOpen(t *testing.T) {
	st := newStats(t, "C19", "TestC19_StalledOpen", "built with the race detector: the fake store keeps the 1st, 2nd or 3rd request of connection A's CREATE VIRTUAL TABLE (read-write or read-only, on a populated prefix) waiting until the harness releases it; meanwhile connection B, with a table on another prefix, runs 1-6 of: CREATE / DROP of a further table, s3db_refresh, s3db_version, s3db_vacuum, an s3db_changes table, INSERT, SELECT: every one must return while A is still waiting (a process-wide lock held across A's storage requests would make B wait for A: for ever if A's store never answers); then A is released and its CREATE must succeed; a statement of B that has not returned after 60 s (they take milliseconds) is reported; non-trivial = B ran while A waited")
	st.Assume = append(st.Assume, "the stall is owned by the harness; the 60 s limit only turns a wait-for cycle (B waits for A, A waits for the harness, the harness waits for B) into a verdict")
	checkRapid(t, st, genStalledCase, runStalled)
}
