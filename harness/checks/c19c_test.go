package checks

// C19 (iv) — connections of one process on ONE bucket prefix, each on its own thread: "each
// table's result is what it would be if the connections had run one after another in some
// order". The history oracle of C03 (every open or refresh shows, of every other connection,
// one of the states that connection had committed between "acknowledged before the open
// began" and "started before the open ended") under real threads instead of a harness-owned
// scheduler. To make the narrow windows between two object-store requests of one connection
// reachable, every connection's requests are delayed by a generated pattern of short pauses
// (the pauses perturb the schedule; no verdict depends on a clock).

import (
	"fmt"
	"runtime"
	"sort"
	"strings"
	"sync"
	"testing"
	"time"

	"verif/fakes3"

	"pgregory.net/rapid"
)

type SharedOp struct {
	Op string `json:"op"` // ins refresh open select
	RO bool   `json:"ro,omitempty"`
}

type SharedStream struct {
	Ops    []SharedOp `json:"ops"`
	Jitter []int      `json:"jitter"` // microseconds before the i-th (mod len) request of this connection
}

type SharedCase struct {
	Procs   int            `json:"procs"`
	EPN     int            `json:"epn"`
	Streams []SharedStream `json:"streams"`
}

func genSharedCase(t *rapid.T) SharedCase {
	c := SharedCase{Procs: rapid.SampledFrom([]int{2, 4, 16}).Draw(t, "procs"), EPN: rapid.SampledFrom([]int{2, 4, 4096}).Draw(t, "epn")}
	m := rapid.IntRange(2, 4).Draw(t, "m")
	for ci := 0; ci < m; ci++ {
		var s SharedStream
		n := rapid.IntRange(4, 16).Draw(t, "nops")
		for i := 0; i < n; i++ {
			switch r := rapid.IntRange(0, 9).Draw(t, "op"); {
			case r < 5:
				s.Ops = append(s.Ops, SharedOp{Op: "ins"})
			case r < 8:
				s.Ops = append(s.Ops, SharedOp{Op: "refresh"})
			case r < 9:
				s.Ops = append(s.Ops, SharedOp{Op: "open", RO: rapid.Bool().Draw(t, "ro")})
			default:
				s.Ops = append(s.Ops, SharedOp{Op: "select"})
			}
		}
		for i, k := 0, rapid.IntRange(1, 7).Draw(t, "njit"); i < k; i++ {
			s.Jitter = append(s.Jitter, rapid.SampledFrom([]int{0, 0, 0, 20, 100, 400}).Draw(t, "jit"))
		}
		c.Streams = append(c.Streams, s)
	}
	return c
}

// sharedHist: what every connection has committed so far (it only inserts its own keys
// 100*ci+1, 100*ci+2, ... in order, so a state is a count).
type sharedHist struct {
	mu      sync.Mutex
	started []int // commits begun (statement issued)
	acked   []int // commits acknowledged
}

func (h *sharedHist) snapshot(acked bool) []int {
	h.mu.Lock()
	defer h.mu.Unlock()
	if acked {
		return append([]int(nil), h.acked...)
	}
	return append([]int(nil), h.started...)
}

func runShared(c SharedCase, o *Obs) error {
	if len(c.Streams) < 2 {
		return nil
	}
	if c.Procs > 0 {
		old := runtime.GOMAXPROCS(c.Procs)
		defer runtime.GOMAXPROCS(old)
	}
	bucket, store := newBucket(nil)
	defer fakes3.Unregister(bucket)
	m := len(c.Streams)
	hist := &sharedHist{started: make([]int, m), acked: make([]int, m)}
	// the pauses
	var jmu sync.Mutex
	count := map[string]int{}
	store.Intercept = func(q *fakes3.Req) error {
		var ci int
		if _, err := fmt.Sscanf(q.Client, "verif://s%d", &ci); err != nil || ci >= m || len(c.Streams[ci].Jitter) == 0 {
			return nil
		}
		jmu.Lock()
		n := count[q.Client]
		count[q.Client]++
		jmu.Unlock()
		if d := c.Streams[ci].Jitter[n%len(c.Streams[ci].Jitter)]; d > 0 {
			time.Sleep(time.Duration(d) * time.Microsecond)
		} else {
			runtime.Gosched()
		}
		return nil
	}
	defer func() { store.Intercept = nil }()

	errs := make([]error, m)
	observations := make([]int, m)
	var wg sync.WaitGroup
	start := make(chan struct{})
	for ci := 0; ci < m; ci++ {
		wg.Add(1)
		go func(ci int) {
			defer wg.Done()
			defer func() {
				if r := recover(); r != nil {
					errs[ci] = fmt.Errorf("PANIC: %v", r)
				}
			}()
			conn := newConn()
			defer conn.Close()
			spec := TableSpec{Name: uniqName("sh"), Columns: "k primary key, a", Bucket: bucket, Client: fmt.Sprintf("s%d", ci), Prefix: "shared", EPN: c.EPN}
			// observe: open or refresh through f, then judge what the table shows
			observe := func(table string, where string, f func() error) error {
				lo := hist.snapshot(true)
				if err := f(); err != nil {
					return fmt.Errorf("%s: %v", where, err)
				}
				rows, err := conn.Query("select k from " + table)
				if err != nil {
					return fmt.Errorf("%s: scan: %v", where, err)
				}
				hi := hist.snapshot(false)
				seen := make([][]int, m)
				for _, r := range rows {
					var k int
					if _, err := fmt.Sscanf(r[0], "I:%d", &k); err != nil || k/100 >= m {
						return fmt.Errorf("%s: unexpected key %v", where, r)
					}
					seen[k/100] = append(seen[k/100], k%100)
				}
				for cj := 0; cj < m; cj++ {
					sort.Ints(seen[cj])
					for i, n := range seen[cj] {
						if n != i+1 {
							return fmt.Errorf("%s: of connection %d's rows it shows numbers %v: not a state that connection ever committed (it inserts 1,2,3,... one commit each)", where, cj, seen[cj])
						}
					}
					j := len(seen[cj])
					if j < lo[cj] || j > hi[cj] {
						return fmt.Errorf("%s: it shows %d row(s) of connection %d, but %d of that connection's commits were acknowledged before this open/refresh began and %d had been started when it ended: no order of the connections explains it", where, j, cj, lo[cj], hi[cj])
					}
				}
				observations[ci]++
				return nil
			}
			<-start
			if err := observe(spec.Name, fmt.Sprintf("connection %d, CREATE", ci), func() error { return conn.Create(spec) }); err != nil {
				errs[ci] = err
				return
			}
			n := 0
			for i, op := range c.Streams[ci].Ops {
				where := fmt.Sprintf("connection %d, op %d (%s)", ci, i, op.Op)
				switch op.Op {
				case "ins":
					n++
					hist.mu.Lock()
					hist.started[ci] = n
					hist.mu.Unlock()
					if err := conn.Exec("insert into "+spec.Name+"(k,a) values (?,?)", 100*ci+n, n); err != nil {
						errs[ci] = fmt.Errorf("%s: %v", where, err)
						return
					}
					hist.mu.Lock()
					hist.acked[ci] = n
					hist.mu.Unlock()
				case "refresh":
					if err := observe(spec.Name, where, func() error { return conn.Refresh(spec.Name) }); err != nil {
						errs[ci] = err
						return
					}
				case "open":
					sp := spec
					sp.Name, sp.ReadOnly = uniqName("sh2"), op.RO
					if err := observe(sp.Name, where, func() error { return conn.Create(sp) }); err != nil {
						errs[ci] = err
						return
					}
					if err := conn.Drop(sp.Name); err != nil {
						errs[ci] = fmt.Errorf("%s: drop: %v", where, err)
						return
					}
				case "select":
					// without a refresh: own rows all there
					rows, err := conn.Query("select k from "+spec.Name+" where k > ? and k < ?", 100*ci, 100*ci+100)
					if err != nil || len(rows) != n {
						errs[ci] = fmt.Errorf("%s: the connection reads %d of its own %d rows (err %v)", where, len(rows), n, err)
						return
					}
				}
			}
		}(ci)
	}
	close(start)
	done := make(chan struct{})
	go func() { wg.Wait(); close(done) }()
	select {
	case <-done:
	case <-time.After(300 * time.Second):
		return fmt.Errorf("DEADLOCK-OR-HANG: after 300 s not every connection has finished")
	}
	for _, err := range errs {
		if err != nil {
			return err
		}
	}
	store.Intercept = nil
	// afterwards: everything acknowledged is there
	conn := newConn()
	defer conn.Close()
	sp := TableSpec{Name: uniqName("shf"), Columns: "k primary key, a", Bucket: bucket, Client: "final", Prefix: "shared", ReadOnly: true, EPN: c.EPN}
	if err := conn.Create(sp); err != nil {
		return fmt.Errorf("final open: %v", err)
	}
	rows, err := conn.Query("select k from " + sp.Name)
	if err != nil {
		return fmt.Errorf("final scan: %v", err)
	}
	want := 0
	for _, a := range hist.snapshot(true) {
		want += a
	}
	if len(rows) != want {
		var ks []string
		for _, r := range rows {
			ks = append(ks, r[0])
		}
		return fmt.Errorf("after all connections finished a fresh open shows %d rows (%s), %d were committed", len(rows), strings.Join(ks, " "), want)
	}
	total := 0
	for _, n := range observations {
		total += n
	}
	o.ClassN("open-or-refresh-judged", total)
	o.ClassN("connections", m)
	if want >= 4 && total >= 6 {
		o.NonTrivial = true
	}
	return nil
}

func init() { register("TestC19_SharedHistory", runShared) }

func TestC19_SharedHistory(t *testing.T) {
	st := newStats(t, "C19", "TestC19_SharedHistory", "built with the race detector: 2-4 connections on their own threads, all with a table on ONE bucket prefix, each inserting its own keys 1,2,3,... one commit each, interleaved with s3db_refresh, further read-only or read-write tables opened on the same prefix, and reads; every connection's object-store requests are delayed by a generated pattern of pauses (0-400 microseconds) so that the gaps between two requests of one commit or one open are reachable; oracle (the history oracle of C03 under real threads): whatever a CREATE or s3db_refresh shows of another connection must be a state that connection committed, not older than its commits acknowledged before the open began and not newer than those started when it ended; a connection always reads all of its own rows; a final fresh open shows every acknowledged row; non-trivial = at least 4 commits and 6 judged opens/refreshes")
	st.Assume = append(st.Assume, "thread schedules are the Go scheduler's, perturbed by the generated pauses; each case is one sample")
	checkRapid(t, st, genSharedCase, runShared)
}
