package checks

// C18 — encrypted nodes are confidential, authenticated and still deduplicate.

import (
	"bytes"
	"context"
	"encoding/hex"
	"fmt"
	"strings"
	"sync"
	"testing"
	"time"

	"github.com/jrhy/s3db/kv"
	"golang.org/x/crypto/poly1305"
	"golang.org/x/crypto/salsa20"
	"golang.org/x/crypto/salsa20/salsa"
	"pgregory.net/rapid"

	"verif/fakes3"
)

// ---------------------------------------------------------------------------
// harness-owned sealer for the earlier box format, written from the format:
//   nonce(24) || mac(16) || c
//   subkey = HSalsa20(key, nonce[0:16]); stream = Salsa20(subkey, nonce[16:24])
//   poly1305 key = stream[0:32]; c[0:32] = m[0:32] ^ stream[32:64];
//   c[32:] = m[32:] ^ stream[0:...]   (the stream is restarted, unlike NaCl)
//   mac = Poly1305(c)

func legacySeal(key *[32]byte, nonce [24]byte, m []byte) []byte {
	var subkey [32]byte
	var n16 [16]byte
	copy(n16[:], nonce[:16])
	salsa.HSalsa20(&subkey, &n16, key, &salsa.Sigma)
	need := 64
	if len(m) > 32 && len(m)-32 > need {
		need = len(m) - 32
	}
	stream := make([]byte, need)
	salsa20.XORKeyStream(stream, stream, nonce[16:24], &subkey)
	c := make([]byte, len(m))
	for i := range m {
		if i < 32 {
			c[i] = m[i] ^ stream[32+i]
		} else {
			c[i] = m[i] ^ stream[i-32]
		}
	}
	var polyKey [32]byte
	copy(polyKey[:], stream[:32])
	var mac [16]byte
	poly1305.Sum(&mac, c, &polyKey)
	out := append([]byte{}, nonce[:]...)
	out = append(out, mac[:]...)
	return append(out, c...)
}

// the key behind a passphrase is derived inside kv; the harness recovers it by
// asking the encryptor to seal a known message and checking its own derivation.
// (deriveKey is unexported; the harness re-implements it: argon2id over the
// base64 passphrase with a BLAKE2b-16 salt.)

type BoxCase struct {
	Pass    string `json:"pass"`    // hex
	Len     int    `json:"len"`     // plaintext length
	Fill    int    `json:"fill"`    // plaintext pattern seed
	Corrupt string `json:"corrupt"` // none bitflip subst trunc extend nonceswap wrongpass
	Pos     int    `json:"pos"`
	Legacy  bool   `json:"legacy"` // exercise the earlier format
	Nonce   string `json:"nonce,omitempty"`
	NoSteer bool   `json:"no_steer,omitempty"`
}

func pattern(n, seed int) []byte {
	b := make([]byte, n)
	x := uint32(seed*2654435761 + 12345)
	for i := range b {
		x = x*1664525 + 1013904223
		b[i] = byte(x >> 24)
	}
	return b
}

func genBoxCase(t *rapid.T) BoxCase {
	c := BoxCase{
		Pass: rapid.OneOf(
			rapid.SampledFrom([]string{"", "00", "70617373", "ff", "6c6f6e6765722070617373706872617365206f66206d616e79206279746573", "e697a5e69cac"}),
			rapid.Map(rapid.SliceOfN(rapid.Byte(), 0, 40), func(b []byte) string { return hex.EncodeToString(b) }),
			// long passphrases (key files): around and beyond 64 and 128 bytes
			rapid.Map(rapid.SliceOfN(rapid.Byte(), 56, 200), func(b []byte) string { return hex.EncodeToString(b) }),
		).Draw(t, "pass"),
		Fill: rapid.IntRange(0, 1000).Draw(t, "fill"),
	}
	c.Len = rapid.OneOf(rapid.IntRange(0, 200), rapid.IntRange(0, 200), rapid.SampledFrom([]int{15, 16, 17, 31, 32, 33, 63, 64, 65, 127, 128, 129, 4096, 65536}), rapid.IntRange(201, 70000)).Draw(t, "len")
	c.Corrupt = rapid.SampledFrom([]string{"none", "none", "bitflip", "bitflip", "bitflip", "subst", "trunc", "extend", "nonceswap", "wrongpass"}).Draw(t, "corrupt")
	c.Pos = rapid.IntRange(0, 1<<20).Draw(t, "pos")
	c.Legacy = rapid.Bool().Draw(t, "legacy")
	c.Nonce = hex.EncodeToString(rapid.SliceOfN(rapid.Byte(), 24, 24).Draw(t, "nonce"))
	return c
}

var (
	keyMu    sync.Mutex
	keyCache = map[string][32]byte{}
)

func runBox(c BoxCase, o *Obs) error {
	pass, _ := hex.DecodeString(c.Pass)
	m := pattern(c.Len, c.Fill)
	enc := kv.V1NodeEncryptor(pass)
	ct, err := enc.Encrypt("node/x", m)
	if err != nil {
		return fmt.Errorf("encrypt: %v", err)
	}
	ct2, err := enc.Encrypt("node/y", m)
	if err != nil || !bytes.Equal(ct, ct2) {
		return fmt.Errorf("encrypting the same %d bytes twice gives different ciphertexts (no deduplication)", c.Len)
	}
	ct3, err := kv.V1NodeEncryptor(append([]byte{}, pass...)).Encrypt("other", m)
	if err != nil || !bytes.Equal(ct, ct3) {
		return fmt.Errorf("a second encryptor with the same passphrase gives a different ciphertext for the same %d bytes", c.Len)
	}
	if c.Len >= 8 && bytes.Contains(ct, m) {
		return fmt.Errorf("the ciphertext contains the plaintext (%d bytes)", c.Len)
	}
	pt, err := enc.Decrypt("node/x", ct)
	if err != nil {
		return fmt.Errorf("decrypt of a fresh ciphertext (%d bytes): %v", c.Len, err)
	}
	if !bytes.Equal(pt, m) {
		return fmt.Errorf("decrypt(encrypt(m)) != m for %d bytes", c.Len)
	}
	if c.Len > 32 {
		o.NonTrivial = true
	}
	target := ct
	if c.Legacy {
		// the earlier format, sealed by the harness under the same key
		key, err := derivedKey(pass)
		if err != nil {
			return err
		}
		var nonce [24]byte
		nb, _ := hex.DecodeString(c.Nonce)
		copy(nonce[:], nb)
		if c.Len > 32 && !c.NoSteer {
			// known finding K6: beyond 32 bytes the earlier format is not readable
			o.Exclude("K6-earlier-format-longer-than-32-bytes")
			return nil
		}
		target = legacySeal(&key, nonce, m)
		pt, err := enc.Decrypt("node/x", target)
		if err != nil {
			return fmt.Errorf("data in the earlier box format (%d bytes) is not readable: %v", c.Len, err)
		}
		if !bytes.Equal(pt, m) {
			return fmt.Errorf("data in the earlier box format (%d bytes) decrypts to different bytes", c.Len)
		}
		o.Class("legacy-read")
	}
	bad := append([]byte{}, target...)
	dec := enc
	switch c.Corrupt {
	case "none":
		return nil
	case "bitflip":
		i := c.Pos % (len(bad) * 8)
		bad[i/8] ^= 1 << uint(i%8)
		if i/8 < 40 {
			o.NonTrivial = true
			o.Class("corrupt-nonce-or-mac")
		}
	case "subst":
		i := c.Pos % len(bad)
		bad[i] ^= byte(1 + c.Pos%255)
	case "trunc":
		bad = bad[:c.Pos%len(bad)]
	case "extend":
		bad = append(bad, pattern(1+c.Pos%40, c.Pos)...)
	case "nonceswap":
		other, _ := enc.Encrypt("z", pattern(c.Len, c.Fill+1))
		if bytes.Equal(other[:24], bad[:24]) {
			return nil
		}
		copy(bad[:24], other[:24])
	case "wrongpass":
		// another passphrase: one more byte at the end, the last byte changed, or the first
		wrong := append(append([]byte{}, pass...), 'x')
		if len(pass) > 0 {
			switch c.Pos % 3 {
			case 1:
				wrong = append([]byte{}, pass...)
				wrong[len(wrong)-1] ^= 1
			case 2:
				wrong = append([]byte{}, pass...)
				wrong[0] ^= 0x80
			}
		}
		dec = kv.V1NodeEncryptor(wrong)
		if len(pass) >= 64 {
			o.Class("wrong-passphrase-differing-beyond-byte-64")
		}
	}
	o.Class("corrupt-" + c.Corrupt)
	got, err := dec.Decrypt("node/x", bad)
	if err == nil {
		return fmt.Errorf("a %s ciphertext (%d plaintext bytes, legacy=%v) was accepted and gave %d bytes instead of an error", c.Corrupt, c.Len, c.Legacy, len(got))
	}
	return nil
}

// derivedKey recomputes kv's key derivation (argon2id, see kv/crypto.go deriveKey)
// and validates it against the encryptor, so a wrong harness derivation shows up
// as a harness error, not as a finding.
func derivedKey(pass []byte) ([32]byte, error) {
	keyMu.Lock()
	defer keyMu.Unlock()
	if k, ok := keyCache[string(pass)]; ok {
		return k, nil
	}
	k := harnessDeriveKey(pass)
	// validate: a standard secretbox sealed by the encryptor opens under this key
	ct, err := kv.V1NodeEncryptor(pass).Encrypt("p", []byte("probe"))
	if err != nil {
		return k, err
	}
	var nonce [24]byte
	copy(nonce[:], ct[:24])
	if !bytes.Equal(legacySeal(&k, nonce, []byte("probe")), ct) {
		return k, fmt.Errorf("harness bug: key derivation or box layout disagrees with the encryptor on a 5-byte message (both formats coincide up to 32 bytes)")
	}
	// and the harness's sealer for the earlier format is byte-identical to the
	// reference sealer kept in the package (exported under the verif tag), for
	// lengths on both sides of the 32-byte boundary
	for _, n := range []int{0, 1, 31, 32, 33, 64, 65, 100, 300} {
		m := pattern(n, n+1)
		ref, err := kv.VerifLegacySeal(m, nonce[:], &k)
		if err != nil {
			return k, err
		}
		if !bytes.Equal(legacySeal(&k, nonce, m), append(append([]byte{}, nonce[:]...), ref...)) {
			return k, fmt.Errorf("harness bug: the harness's sealer for the earlier box format differs from the package's reference sealer at %d bytes", n)
		}
	}
	keyCache[string(pass)] = k
	return k, nil
}

func init() { register("TestC18_Box", runBox) }

func TestC18_Box(t *testing.T) {
	st := newStats(t, "C18", "TestC18_Box", "plaintexts of every length 0..200 (dense), block edges 15/16/17 31/32/33 63/64/65 127..129, 4096, 65536 and random lengths to 70000, random passphrases of 0-40 and 56-200 bytes (the wrong passphrase differs in an appended byte, the last byte or the first), through the public V1NodeEncryptor: decrypt(encrypt(m))=m; encrypt(m) twice and under a second instance with the same passphrase is byte-identical; the ciphertext does not contain the plaintext; one corruption per case (single bit flip anywhere, byte substitution, truncation to any shorter length, extension, nonce swap with another ciphertext, wrong passphrase) must give an error; in half of the cases the ciphertext is first produced by a harness-owned sealer for the earlier box format (validated against the encryptor on messages <=32 bytes where both formats coincide) and must decrypt to the plaintext, and is then corrupted the same way; non-trivial = length > 32 (formats diverge) or a corruption in the nonce/MAC region")
	checkRapid(t, st, genBoxCase, runBox)
}

// ---------------------------------------------------------------------------
// kv level: what is stored under node/

type KVEncCase struct {
	Pass  string   `json:"pass"`
	BF    int      `json:"bf"`
	Keys  []string `json:"keys"` // hex markers (16 bytes each) used as keys
	Vals  []string `json:"vals"`
	Flip  int      `json:"flip"`
	Wrong bool     `json:"wrong"`
	// FailPut > 0: the FailPut-th PUT of a node object of the encrypted run fails once with
	// a transport error; the application starts over until a commit succeeds
	FailPut int `json:"fail_put,omitempty"`
	// Split > 0: the tamper / wrong-passphrase phase runs on a bucket in which two handles
	// committed side by side (keys[:Split] and keys[Split:]): the reader has to merge two
	// current versions, and the tampered node may belong to either
	Split int `json:"split,omitempty"`
}

func genKVEncCase(t *rapid.T) KVEncCase {
	c := KVEncCase{Pass: hex.EncodeToString(rapid.OneOf(rapid.SliceOfN(rapid.Byte(), 1, 20), rapid.SliceOfN(rapid.Byte(), 60, 140)).Draw(t, "pass")),
		BF: rapid.SampledFrom([]int{2, 3, 4, 16, 4096}).Draw(t, "bf"), Flip: rapid.IntRange(0, 1<<20).Draw(t, "flip"), Wrong: rapid.Bool().Draw(t, "wrong")}
	if rapid.IntRange(0, 2).Draw(t, "withfault") == 0 {
		c.FailPut = rapid.IntRange(1, 6).Draw(t, "failput")
	}
	n := rapid.IntRange(1, 24).Draw(t, "n")
	seen := map[string]bool{}
	for len(c.Keys) < n {
		k := hex.EncodeToString(rapid.SliceOfN(rapid.Byte(), 16, 16).Draw(t, "k"))
		if seen[k] {
			continue
		}
		seen[k] = true
		c.Keys = append(c.Keys, k)
		c.Vals = append(c.Vals, hex.EncodeToString(rapid.SliceOfN(rapid.Byte(), 16, 16).Draw(t, "v")))
	}
	if n >= 2 && rapid.Bool().Draw(t, "two") {
		c.Split = rapid.IntRange(1, n-1).Draw(t, "split")
	}
	return c
}

func kvCfg(bucket string, bf int, enc kv.Encryptor) kv.Config {
	return kv.Config{
		Storage:       &kv.S3BucketInfo{EndpointURL: "verif://kv", BucketName: bucket, Prefix: "enc"},
		KeysLike:      "",
		ValuesLike:    "",
		BranchFactor:  uint(bf),
		NodeEncryptor: enc,
	}
}

func kvFill(st *fakes3.Store, bf int, enc kv.Encryptor, c KVEncCase, when int64) error {
	ctx := context.Background()
	db, err := kv.Open(ctx, st.Client("verif://kv"), kvCfg("b", bf, enc), kv.OpenOptions{}, time.Unix(when, 0))
	if err != nil {
		return fmt.Errorf("open: %v", err)
	}
	for i, k := range c.Keys {
		kb, _ := hex.DecodeString(k)
		vb, _ := hex.DecodeString(c.Vals[i])
		if err := db.Set(ctx, time.Unix(1000+int64(i), 0), string(kb), string(vb)); err != nil {
			return fmt.Errorf("set: %v", err)
		}
	}
	if _, err := db.Commit(ctx); err != nil {
		return fmt.Errorf("commit: %v", err)
	}
	return nil
}

func markersIn(st *fakes3.Store, c KVEncCase) int {
	found := 0
	for _, name := range st.Keys("enc/node/") {
		b, _ := st.Get(name)
		for i := range c.Keys {
			kb, _ := hex.DecodeString(c.Keys[i])
			vb, _ := hex.DecodeString(c.Vals[i])
			if bytes.Contains(b, kb) || bytes.Contains(b, vb) {
				found++
			}
		}
	}
	return found
}

func runKVEnc(c KVEncCase, o *Obs) error {
	if len(c.Keys) == 0 || len(c.Keys) != len(c.Vals) {
		return nil
	}
	pass, _ := hex.DecodeString(c.Pass)
	// control: without an encryptor the markers ARE found (the scan is not vacuous)
	plain := fakes3.New()
	if err := kvFill(plain, c.BF, nil, c, 500); err != nil {
		return fmt.Errorf("control run: %v", err)
	}
	if markersIn(plain, c) == 0 {
		return fmt.Errorf("harness bug: the control run without encryption shows no key/value bytes in node objects")
	}
	// encrypted
	st := fakes3.New()
	if c.FailPut > 0 {
		// one transient failure of a node PUT: whatever the commit reports, nothing that
		// reaches the bucket may be plaintext; the application starts over
		nput, hit := 0, false
		st.Intercept = func(q *fakes3.Req) error {
			if q.Op == "PUT" && strings.Contains(q.Key, "/node/") {
				nput++
				if nput == c.FailPut {
					hit = true
					return fakes3.ErrInjected
				}
			}
			return nil
		}
		err := kvFill(st, c.BF, kv.V1NodeEncryptor(pass), c, 500)
		st.Intercept = nil
		if hit {
			o.Class("node-put-failed-once")
		}
		if err != nil {
			if !hit {
				return err
			}
			for _, k := range st.Keys("enc/root/") { // (none expected: the commit failed)
				st.Remove(k)
			}
			if err := kvFill(st, c.BF, kv.V1NodeEncryptor(pass), c, 500); err != nil {
				return fmt.Errorf("starting over after a failed commit: %v", err)
			}
		}
	} else if err := kvFill(st, c.BF, kv.V1NodeEncryptor(pass), c, 500); err != nil {
		return err
	}
	if n := markersIn(st, c); n > 0 {
		return fmt.Errorf("%d plaintext key/value markers appear in stored node objects although a node encryptor is configured", n)
	}
	nodes := st.Keys("enc/node/")
	if len(nodes) > 1 {
		o.NonTrivial = true
		o.Class("multi-node")
	}
	// a second, fresh handle on a second bucket commits the same content: same names, same bytes
	st2 := fakes3.New()
	if err := kvFill(st2, c.BF, kv.V1NodeEncryptor(pass), c, 777); err != nil {
		return err
	}
	n2 := st2.Keys("enc/node/")
	if strings.Join(nodes, ",") != strings.Join(n2, ",") {
		return fmt.Errorf("the same content under the same passphrase is stored under different node names: %v vs %v", nodes, n2)
	}
	for _, name := range nodes {
		a, _ := st.Get(name)
		b, _ := st2.Get(name)
		if !bytes.Equal(a, b) {
			return fmt.Errorf("node %s has different bytes in two stores for the same content and passphrase", name)
		}
	}
	// building the same content again in a bucket that already holds the node objects
	// (but no version) stores no new node object: equal plaintext, equal name
	st3 := st.Clone()
	for _, k := range st3.Keys("enc/root/") {
		st3.Remove(k)
	}
	from := st3.LogLen()
	if err := kvFill(st3, c.BF, kv.V1NodeEncryptor(pass), c, 900); err != nil {
		return err
	}
	for _, q := range st3.LogSince(from) {
		if q.Op == "PUT" && strings.Contains(q.Key, "/node/") && q.New {
			return fmt.Errorf("committing unchanged content stored a new node object %s (no deduplication)", q.Key)
		}
	}
	if rw := st3.Rewrites(); len(rw) > 0 {
		return fmt.Errorf("node objects re-written with different bytes: %v", rw)
	}
	// reading back
	ctx := context.Background()
	readAll := func(s *fakes3.Store, enc kv.Encryptor) error {
		db, err := kv.Open(ctx, s.Client("verif://kv"), kvCfg("b", c.BF, enc), kv.OpenOptions{ReadOnly: true}, time.Unix(2000, 0))
		if err != nil {
			return err
		}
		for i, k := range c.Keys {
			kb, _ := hex.DecodeString(k)
			var v string
			ok, err := db.Get(ctx, string(kb), &v)
			if err != nil {
				return err
			}
			vb, _ := hex.DecodeString(c.Vals[i])
			if !ok || v != string(vb) {
				return fmt.Errorf("WRONG-DATA key %d reads %x ok=%v", i, v, ok)
			}
		}
		return nil
	}
	if err := readAll(st, kv.V1NodeEncryptor(pass)); err != nil {
		return fmt.Errorf("reading back with the right passphrase: %v", err)
	}
	if c.Split > 0 && c.Split < len(c.Keys) {
		// two writers committed side by side: two current versions for the reader to merge
		st = fakes3.New()
		var hs []*kv.DB
		for range []int{0, 1} {
			db, err := kv.Open(ctx, st.Client("verif://kv"), kvCfg("b", c.BF, kv.V1NodeEncryptor(pass)), kv.OpenOptions{}, time.Unix(700, 0))
			if err != nil {
				return fmt.Errorf("two writers: open: %v", err)
			}
			hs = append(hs, db)
		}
		for i, k := range c.Keys {
			kb, _ := hex.DecodeString(k)
			vb, _ := hex.DecodeString(c.Vals[i])
			db := hs[0]
			if i >= c.Split {
				db = hs[1]
			}
			if err := db.Set(ctx, time.Unix(1000+int64(i), 0), string(kb), string(vb)); err != nil {
				return fmt.Errorf("two writers: set: %v", err)
			}
		}
		for _, db := range hs {
			if _, err := db.Commit(ctx); err != nil {
				return fmt.Errorf("two writers: commit: %v", err)
			}
		}
		if n := len(st.Keys("enc/root/current/")); n != 2 {
			return fmt.Errorf("harness bug: %d current versions after two side-by-side commits", n)
		}
		nodes = st.Keys("enc/node/")
		if err := readAll(st, kv.V1NodeEncryptor(pass)); err != nil {
			return fmt.Errorf("two writers: reading back with the right passphrase: %v", err)
		}
		o.Class("reader-merges-two-versions")
	}
	if c.Wrong {
		err := readAll(st, kv.V1NodeEncryptor(append(pass, 'x')))
		if err == nil || strings.Contains(err.Error(), "WRONG-DATA") {
			return fmt.Errorf("opening with a different passphrase did not fail cleanly: %v", err)
		}
		o.Class("wrong-passphrase")
		return nil
	}
	// flip one bit in one stored node
	victim := nodes[c.Flip%len(nodes)]
	b, _ := st.Get(victim)
	bad := append([]byte{}, b...)
	i := (c.Flip / 7) % (len(bad) * 8)
	bad[i/8] ^= 1 << uint(i%8)
	tampered := st.Clone()
	tampered.Put(victim, bad)
	err := readAll(tampered, kv.V1NodeEncryptor(pass))
	if err == nil || strings.Contains(err.Error(), "WRONG-DATA") {
		return fmt.Errorf("a stored node with one flipped bit was not reported as an error: %v", err)
	}
	o.Class("tampered-node")
	return nil
}

func init() { register("TestC18_KV", runKVEnc) }

func TestC18_KV(t *testing.T) {
	st := newStats(t, "C18", "TestC18_KV", "kv.Open over the fake store with a node encryptor, branch factor 2..4096, 1-24 entries whose keys and values are random 16-byte markers: no node/* object may contain a marker (control: the same run without encryptor must show them); the same content committed by a fresh handle into a second bucket gives the same node names and bytes; building it again in a bucket that already holds the node objects creates no new node object; all entries read back; then either another passphrase or one flipped bit in one stored node must make open/Get fail, in half of the cases on a bucket in which two handles committed side by side (the reader merges two current versions, the tampered node may belong to either); non-trivial = a tree of more than one node")
	checkRapid(t, st, genKVEncCase, runKVEnc)
}

// ---------------------------------------------------------------------------
// native fuzz: arbitrary bytes never panic Decrypt, and whatever it accepts is a
// genuine sealed message of one of the two formats

func FuzzDecrypt(f *testing.F) {
	pass := []byte("fuzz passphrase")
	enc := kv.V1NodeEncryptor(pass)
	key := harnessDeriveKey(pass)
	for _, n := range []int{0, 1, 16, 31, 32, 33, 64, 100} {
		m := pattern(n, n)
		ct, _ := enc.Encrypt("x", m)
		f.Add(ct)
		var nonce [24]byte
		copy(nonce[:], pattern(24, n+7))
		f.Add(legacySeal(&key, nonce, m))
	}
	f.Add([]byte{})
	f.Add(make([]byte, 23))
	f.Add(make([]byte, 24))
	f.Add(make([]byte, 40))
	f.Fuzz(func(t *testing.T, in []byte) {
		m, err := enc.Decrypt("x", in)
		if err != nil {
			return
		}
		again, _ := enc.Encrypt("x", m)
		if bytes.Equal(again, in) {
			return
		}
		if len(in) >= 24 {
			var nonce [24]byte
			copy(nonce[:], in[:24])
			if bytes.Equal(legacySeal(&key, nonce, m), in) {
				return
			}
			// standard box under an arbitrary nonce (authentic too: same MAC construction)
			if len(m) <= 32 {
				t.Fatalf("unreachable: <=32 bytes coincide with the earlier format")
			}
			if std := stdSeal(&key, nonce, m); bytes.Equal(std, in) {
				return
			}
		}
		t.Fatalf("Decrypt accepted %d bytes that no sealer produces (returned %d bytes)", len(in), len(m))
	})
}
