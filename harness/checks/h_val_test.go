package checks

// Value generators and the harness's own reference comparator (written from
// the SQLite documentation of storage-class ordering, not from key.go).

import (
	"bytes"
	"math"

	"pgregory.net/rapid"
)

var boundaryInts = []int64{
	0, 1, -1, 2, -2, 15, 16, 17, 255, 256,
	1 << 31, -(1 << 31), 1<<31 - 1, 1 << 32,
	1 << 53, 1<<53 + 1, 1<<53 - 1, 1<<53 + 2, -(1 << 53), -(1 << 53) - 1, -(1 << 53) + 1,
	1 << 62, 1<<62 + 1, -(1 << 62),
	math.MaxInt64, math.MaxInt64 - 1, math.MinInt64, math.MinInt64 + 1,
}

var boundaryReals = []float64{
	0, math.Copysign(0, -1), 1, -1, 0.5, -0.5, 1.5, 2, 16, 16.5, 255, 256,
	9007199254740992, 9007199254740994, 9007199254740990, -9007199254740992, -9007199254740994,
	4611686018427387904, 9223372036854775807, 9223372036854775808, -9223372036854775808, 1.8446744073709552e19,
	9223372036854774784, -9223372036854774784,
	math.SmallestNonzeroFloat64, -math.SmallestNonzeroFloat64, math.MaxFloat64, -math.MaxFloat64,
	math.Inf(1), math.Inf(-1), 1e-300, 2.2250738585072014e-308,
	3.14159, -2.71828, 1e15, 1e16, 1e17, 123456789.125,
}

var boundaryTexts = []string{
	"", "a", "b", "A", "aa", "ab", "a\x00b", "a b", "é", "ü", "日本", "😀", "ÿ", "\x7f", "z", "0", "1", "10", "9", " ",
	"0123456789abcdef0123456789abcdef", "with'quote", "with\"dq", "percent%", "NULL", "-1", "1.0", "1e3",
}

var boundaryBlobs = [][]byte{
	{}, {0}, {0, 0}, {1}, {0x7f}, {0x80}, {0xff}, {0xff, 0xff}, []byte("a"), []byte("ab"), {0, 1}, {1, 0},
	bytes.Repeat([]byte{0xab}, 33),
}

func genInt() *rapid.Generator[Val] {
	return rapid.OneOf(
		rapid.Map(rapid.SampledFrom(boundaryInts), vInt),
		rapid.Map(rapid.Int64Range(-20, 20), vInt),
		rapid.Map(rapid.Int64(), vInt),
	)
}

func genReal() *rapid.Generator[Val] {
	return rapid.OneOf(
		rapid.Map(rapid.SampledFrom(boundaryReals), vReal),
		rapid.Map(rapid.Int64Range(-20, 20), func(i int64) Val { return vReal(float64(i)) }),
		rapid.Map(rapid.Int64Range(-40, 40), func(i int64) Val { return vReal(float64(i) / 2) }),
		rapid.Map(rapid.SampledFrom(boundaryInts), func(i int64) Val { return vReal(float64(i)) }),
		rapid.Map(rapid.Float64(), func(f float64) Val {
			if math.IsNaN(f) {
				f = 0.25
			}
			return vReal(f)
		}),
	)
}

func genText() *rapid.Generator[Val] {
	return rapid.OneOf(
		rapid.Map(rapid.SampledFrom(boundaryTexts), vText),
		rapid.Map(rapid.StringOfN(rapid.RuneFrom([]rune("abAB01 é日")), 0, 6, -1), vText),
		rapid.Map(rapid.StringN(0, 40, -1), vText),
	)
}

func genBlob() *rapid.Generator[Val] {
	return rapid.OneOf(
		rapid.Map(rapid.SampledFrom(boundaryBlobs), vBlob),
		rapid.Map(rapid.SliceOfN(rapid.SampledFrom([]byte{0, 1, 0x7f, 0x80, 0xff, 'a'}), 0, 5), vBlob),
		rapid.Map(rapid.SliceOfN(rapid.Byte(), 0, 70), vBlob),
	)
}

// genKeyVal: any non-NULL value usable as a primary key.
func genKeyVal() *rapid.Generator[Val] {
	return rapid.OneOf(genInt(), genInt(), genReal(), genReal(), genText(), genBlob())
}

// genAnyVal: any value including NULL.
func genAnyVal() *rapid.Generator[Val] {
	return rapid.OneOf(rapid.Just(vNull()), genInt(), genReal(), genText(), genBlob())
}

// isEmptyText reports the trigger of known finding K1 (empty TEXT reads back NULL).
func (v Val) isEmptyText() bool { return v.K == "t" && v.X == "" }

// ---------------------------------------------------------------------------
// reference comparator

func classRank(v Val) int {
	switch v.K {
	case "n":
		return 0
	case "i", "r":
		return 1
	case "t":
		return 2
	case "b":
		return 3
	}
	panic("bad val kind " + v.K)
}

// cmpIntFloat compares an integer with a real exactly (no rounding of i).
func cmpIntFloat(i int64, r float64) int {
	if math.IsNaN(r) {
		return 1
	}
	if r < -9223372036854775808.0 {
		return 1
	}
	if r >= 9223372036854775808.0 {
		return -1
	}
	y := int64(r)
	if i < y {
		return -1
	}
	if i > y {
		return 1
	}
	s := float64(i)
	if s < r {
		return -1
	}
	if s > r {
		return 1
	}
	return 0
}

// refCmp is SQLite's documented ordering: NULL < numbers < text < blob;
// numbers numerically, text and blobs bytewise.
func refCmp(a, b Val) int {
	ra, rb := classRank(a), classRank(b)
	if ra != rb {
		if ra < rb {
			return -1
		}
		return 1
	}
	switch ra {
	case 0:
		return 0
	case 1:
		switch {
		case a.K == "i" && b.K == "i":
			if a.I < b.I {
				return -1
			} else if a.I > b.I {
				return 1
			}
			return 0
		case a.K == "r" && b.K == "r":
			x, y := a.Real(), b.Real()
			if x < y {
				return -1
			} else if x > y {
				return 1
			}
			return 0
		case a.K == "i":
			return cmpIntFloat(a.I, b.Real())
		default:
			return -cmpIntFloat(b.I, a.Real())
		}
	default:
		return bytes.Compare(a.Bytes(), b.Bytes())
	}
}

// keyClassID gives one canonical string per SQLite-equality class of key values
// (1 and 1.0 are the same key; +0.0 and -0.0 too).
func keyClassID(v Val) string {
	if v.K == "r" {
		f := v.Real()
		if f == math.Trunc(f) && f >= -9223372036854775808.0 && f < 9223372036854775808.0 {
			return vInt(int64(f)).Cell()
		}
		if f == 0 {
			return vInt(0).Cell()
		}
	}
	return v.Cell()
}
