package checks

// Statements as plain data, their SQL rendering, and the operation-based
// reference model of DESIGN.md Appendix A. The model shares nothing with the
// implementation's representation (no offsets, no status time, no entry
// modification time): a table is a pure function of a set of operations.

import (
	"fmt"
	"sort"
	"strings"
	"sync/atomic"

	"pgregory.net/rapid"
)

// Stmt is one INSERT / UPDATE / DELETE.
type Stmt struct {
	Kind string   `json:"kind"`           // ins upd del
	Keys []Val    `json:"keys,omitempty"` // ins: one per row; upd/del: WHERE k = / IN (...); empty: no WHERE
	Cols []string `json:"cols,omitempty"` // ins: named non-key columns; upd: SET columns
	Vals [][]Val  `json:"vals,omitempty"` // ins: per row; upd: Vals[0]
	T    int64    `json:"t"`              // write time, seconds after baseTime
}

// wellFormed rejects shapes only a minimiser can produce.
func (s Stmt) wellFormed() bool {
	switch s.Kind {
	case "ins":
		if len(s.Keys) == 0 || len(s.Vals) != len(s.Keys) {
			return false
		}
		for _, v := range s.Vals {
			if len(v) != len(s.Cols) {
				return false
			}
		}
		return true
	case "upd":
		return len(s.Cols) > 0 && len(s.Vals) == 1 && len(s.Vals[0]) == len(s.Cols)
	case "del":
		return true
	}
	return false
}

func (s Stmt) String() string {
	q, args := s.SQL("T", "k")
	return fmt.Sprintf("@%d %s %v", s.T, q, args)
}

// SQL renders the statement for a table whose key column is keyCol.
func (s Stmt) SQL(table, keyCol string) (string, []interface{}) {
	var args []interface{}
	switch s.Kind {
	case "ins":
		cols := append([]string{keyCol}, s.Cols...)
		var rows []string
		for i, k := range s.Keys {
			args = append(args, k.Arg())
			for _, v := range s.Vals[i] {
				args = append(args, v.Arg())
			}
			rows = append(rows, "("+strings.TrimSuffix(strings.Repeat("?,", len(cols)), ",")+")")
		}
		return fmt.Sprintf("insert into %s(%s) values %s", table, strings.Join(cols, ","), strings.Join(rows, ",")), args
	case "upd":
		var sets []string
		for i, c := range s.Cols {
			sets = append(sets, c+"=?")
			args = append(args, s.Vals[0][i].Arg())
		}
		q := fmt.Sprintf("update %s set %s", table, strings.Join(sets, ","))
		w, wa := s.where(keyCol)
		return q + w, append(args, wa...)
	case "del":
		w, wa := s.where(keyCol)
		return "delete from " + table + w, wa
	}
	panic("bad stmt kind " + s.Kind)
}

func (s Stmt) where(keyCol string) (string, []interface{}) {
	switch len(s.Keys) {
	case 0:
		return "", nil
	case 1:
		return " where " + keyCol + "=?", []interface{}{s.Keys[0].Arg()}
	}
	var args []interface{}
	for _, k := range s.Keys {
		args = append(args, k.Arg())
	}
	return " where " + keyCol + " in (" + strings.TrimSuffix(strings.Repeat("?,", len(s.Keys)), ",") + ")", args
}

// ---------------------------------------------------------------------------
// model

type MOp struct {
	Kind  byte // I U D
	KeyID string
	Key   Val
	T     int64
	Cols  map[string]Val
	// Seq orders operations that carry the same write time (statements of one transaction
	// without explicit write_time): the later statement counts. Not part of the identity.
	Seq int64
}

var opSeq int64

func nextSeq() int64 { return atomic.AddInt64(&opSeq, 1) }

func (o MOp) id() string {
	names := make([]string, 0, len(o.Cols))
	for c := range o.Cols {
		names = append(names, c)
	}
	sort.Strings(names)
	var sb strings.Builder
	fmt.Fprintf(&sb, "%c|%s|%d", o.Kind, o.KeyID, o.T)
	for _, c := range names {
		sb.WriteString("|" + c + "=" + o.Cols[c].Cell())
	}
	return sb.String()
}

// MSet is a set of operations (identical retries collapse).
type MSet map[string]MOp

func (s MSet) Clone() MSet {
	n := make(MSet, len(s))
	for k, v := range s {
		n[k] = v
	}
	return n
}

func (s MSet) Add(o MOp) {
	if o.Seq == 0 {
		o.Seq = nextSeq()
	}
	if old, ok := s[o.id()]; ok && old.Seq > o.Seq {
		// the same operation seen again (retry, or merged from another version): it keeps
		// the latest position it was issued at (under equal write times the later statement counts)
		o.Seq = old.Seq
	}
	s[o.id()] = o
}

func (s MSet) Union(o MSet) {
	for _, v := range o {
		s.Add(v)
	}
}

func (s MSet) Equal(o MSet) bool {
	if len(s) != len(o) {
		return false
	}
	for k := range s {
		if _, ok := o[k]; !ok {
			return false
		}
	}
	return true
}

// status returns, for key id, whether the row is live, the time of the latest
// INSERT/DELETE and whether any exists.
func (s MSet) status(keyID string) (live bool, t int64, any bool) {
	var seq int64
	for _, o := range s {
		if o.KeyID != keyID || o.Kind == 'U' {
			continue
		}
		if !any || o.T > t || (o.T == t && o.Seq > seq) {
			any, t, seq, live = true, o.T, o.Seq, o.Kind == 'I'
		}
	}
	return
}

type MRow struct {
	Key   Val
	Cells map[string]Val
}

// Table evaluates the visible rows: key id -> row.
func (s MSet) Table(cols []string) map[string]MRow {
	type best struct {
		t   int64
		seq int64
		v   Val
		ok  bool
	}
	out := map[string]MRow{}
	ids := map[string]bool{}
	for _, o := range s {
		ids[o.KeyID] = true
	}
	for id := range ids {
		live, insT, _ := s.status(id)
		if !live {
			continue
		}
		row := MRow{Cells: map[string]Val{}}
		cell := map[string]best{}
		var keySeq int64
		for _, o := range s {
			if o.KeyID != id {
				continue
			}
			if o.Kind == 'I' && o.T == insT && o.Seq >= keySeq {
				row.Key, keySeq = o.Key, o.Seq
			}
			if o.Kind == 'D' {
				continue
			}
			for c, v := range o.Cols {
				b := cell[c]
				if !b.ok || o.T > b.t || (o.T == b.t && o.Seq > b.seq) {
					cell[c] = best{o.T, o.Seq, v, true}
				}
			}
		}
		for _, c := range cols {
			if b, ok := cell[c]; ok {
				row.Cells[c] = b.v
			} else {
				row.Cells[c] = vNull()
			}
		}
		out[id] = row
	}
	return out
}

// Rows renders the table as canonical sorted rows: key first, then cols in order.
func (s MSet) Rows(cols []string) Rows {
	t := s.Table(cols)
	out := Rows{}
	for _, r := range t {
		row := []string{r.Key.Cell()}
		for _, c := range cols {
			row = append(row, r.Cells[c].Cell())
		}
		out = append(out, row)
	}
	return out.Sorted()
}

// Exec applies a statement to a writer's view. It returns the expected outcome
// class ("ok" or "constraint-key"), the operations that became effective and
// the number of rows the statement addresses.
func (s MSet) Exec(st Stmt, cols []string) (outcome string, added []MOp, matched int) {
	tbl := s.Table(cols)
	switch st.Kind {
	case "ins":
		seen := map[string]bool{}
		for i, k := range st.Keys {
			id := keyClassID(k)
			live, t, any := s.status(id)
			if seen[id] || live || (any && !live && t > st.T) {
				return "constraint-key", nil, 0
			}
			seen[id] = true
			o := MOp{Kind: 'I', KeyID: id, Key: k, T: st.T, Cols: map[string]Val{}, Seq: nextSeq()}
			for _, c := range cols {
				o.Cols[c] = vNull()
			}
			for j, c := range st.Cols {
				o.Cols[c] = st.Vals[i][j]
			}
			added = append(added, o)
		}
		return "ok", added, len(added)
	case "upd", "del":
		var ids []string
		if len(st.Keys) == 0 {
			for id := range tbl {
				ids = append(ids, id)
			}
		} else {
			seen := map[string]bool{}
			for _, k := range st.Keys {
				id := keyClassID(k)
				if _, ok := tbl[id]; ok && !seen[id] {
					ids = append(ids, id)
					seen[id] = true
				}
			}
		}
		sort.Strings(ids)
		for _, id := range ids {
			o := MOp{KeyID: id, Key: tbl[id].Key, T: st.T, Seq: nextSeq()}
			if st.Kind == "upd" {
				o.Kind = 'U'
				o.Cols = map[string]Val{}
				for j, c := range st.Cols {
					o.Cols[c] = st.Vals[0][j]
				}
			} else {
				o.Kind = 'D'
			}
			added = append(added, o)
		}
		return "ok", added, len(added)
	}
	panic("bad stmt kind")
}

// ---------------------------------------------------------------------------
// statement generators

type stmtGenCfg struct {
	keys             []Val    // key domain (distinct equality classes)
	cols             []string // non-key columns
	vals             *rapid.Generator[Val]
	multiRow         bool // allow multi-row inserts and IN / no-WHERE updates and deletes
	wIns, wUpd, wDel int
}

func genStmt(t *rapid.T, cfg stmtGenCfg, label string) Stmt {
	tot := cfg.wIns + cfg.wUpd + cfg.wDel
	r := rapid.IntRange(0, tot-1).Draw(t, label+".kind")
	pickKeys := func(min, max int) []Val {
		n := 1
		if cfg.multiRow && rapid.IntRange(0, 5).Draw(t, label+".multi") == 0 {
			n = rapid.IntRange(min, max).Draw(t, label+".nkeys")
		}
		if n == 0 {
			return nil
		}
		idx := rapid.SliceOfNDistinct(rapid.IntRange(0, len(cfg.keys)-1), n, n, func(i int) int { return i }).Draw(t, label+".keys")
		ks := make([]Val, len(idx))
		for i, x := range idx {
			ks[i] = cfg.keys[x]
		}
		return ks
	}
	pickCols := func(min int) []string {
		n := rapid.IntRange(min, len(cfg.cols)).Draw(t, label+".ncols")
		idx := rapid.SliceOfNDistinct(rapid.IntRange(0, len(cfg.cols)-1), n, n, func(i int) int { return i }).Draw(t, label+".cols")
		sort.Ints(idx)
		cs := make([]string, len(idx))
		for i, x := range idx {
			cs[i] = cfg.cols[x]
		}
		return cs
	}
	vals := func(n int) []Val {
		vs := make([]Val, n)
		for i := range vs {
			vs[i] = cfg.vals.Draw(t, label+".val")
		}
		return vs
	}
	switch {
	case r < cfg.wIns:
		s := Stmt{Kind: "ins", Keys: pickKeys(2, 3)}
		s.Cols = pickCols(0)
		for range s.Keys {
			s.Vals = append(s.Vals, vals(len(s.Cols)))
		}
		return s
	case r < cfg.wIns+cfg.wUpd:
		s := Stmt{Kind: "upd", Keys: pickKeys(0, 3)}
		s.Cols = pickCols(1)
		s.Vals = [][]Val{vals(len(s.Cols))}
		return s
	default:
		return Stmt{Kind: "del", Keys: pickKeys(0, 3)}
	}
}

// smallVals: a small value domain over all storage classes, no empty text
// (known finding K1), so that equal values and conflicts are common.
func smallVals() *rapid.Generator[Val] {
	return rapid.SampledFrom([]Val{
		vNull(), vInt(0), vInt(1), vInt(7), vInt(-3), vReal(1.5), vReal(0), vReal(-2.25),
		vText("x"), vText("y"), vText("long text value"), vBlob([]byte{1, 2}), vBlob([]byte{}), vBlob([]byte{0xff}),
	})
}

func intKeys(n int) []Val {
	ks := make([]Val, n)
	for i := range ks {
		ks[i] = vInt(int64(i + 1))
	}
	return ks
}

// k4Cache steers a configuration away from known finding K4 (dependency bug:
// with a node cache, an INSERT below an absent child link mutates the cached
// shared node in place and corrupts the table). The trigger needs a tree with
// more than one node, which needs at least entries_per_node rows: where that
// is possible the case runs without the cache, and the exclusion is counted.
func k4Cache(epn, maxRows, cache int, o *Obs) int {
	if epn == 0 {
		epn = 4096
	}
	if cache > 0 && maxRows >= epn {
		o.Exclude("K4-node-cache-on-multi-node-tree")
		return 0
	}
	return cache
}
