package checks

// C08 — stored values come back unchanged in value and storage class.

import (
	"fmt"
	"strings"
	"testing"
	"unicode/utf8"

	"pgregory.net/rapid"

	"verif/fakes3"
)

type C08Row struct {
	K Val  `json:"k"`
	A *Val `json:"a,omitempty"` // nil: column not mentioned in the INSERT
	B *Val `json:"b,omitempty"`
}

type C08Upd struct {
	Row int    `json:"row"`
	Col string `json:"col"`
	V   Val    `json:"v"`
}

type C08Case struct {
	EPN     int      `json:"epn"`
	KeyLast bool     `json:"key_last,omitempty"` // key column declared last instead of first
	Rows1   []C08Row `json:"rows1"`              // written by writer 1 (first few in one transaction)
	Rows2   []C08Row `json:"rows2"`              // written by writer 2, which never saw writer 1's rows
	// Older: rows written by writer 2 for keys of Rows1 (by index), with OLDER write times and
	// other values: after the merge writer 1's later INSERT must win column by column, so a
	// column it did not mention, or set to NULL, reads NULL although an older value exists
	Older []C08Row `json:"older,omitempty"`
	// Updates: UPDATEs of single cells of writer 1's rows, issued by writer 1 after its
	// INSERTs; half of the new values are derived from the value the cell holds (the same
	// number in the other numeric representation, -0.0 for 0.0, a neighbour, the same bytes
	// in the other class): what is written last must be what is read, bit for bit
	Updates []C08Upd `json:"updates,omitempty"`
	TxnN    int      `json:"txn_n"`
	DelN    int      `json:"del_n"` // rows of writer 1 deleted before the vacuum
	NoSteer bool     `json:"no_steer,omitempty"`
}

func genFidelityVal() *rapid.Generator[Val] {
	long := rapid.Map(rapid.IntRange(1, 40), func(n int) Val {
		return vText(strings.Repeat("aé日😀\x00z", n))
	})
	bigBlob := rapid.Map(rapid.IntRange(0, 300), func(n int) Val {
		b := make([]byte, n)
		for i := range b {
			b[i] = byte(i * 7)
		}
		return vBlob(b)
	})
	invalid := rapid.SampledFrom([]Val{vText("\xff"), vText("a\x80b"), vText("\xc3"), vText("ok\xed\xa0\x80")})
	return rapid.OneOf(genAnyVal(), genAnyVal(), genAnyVal(), long, bigBlob, invalid,
		rapid.Just(vText("a\x00b")), rapid.Just(vText("\x00")), rapid.Just(vReal(nan())))
}

func nan() float64 { z := 0.0; return z / z }

func genC08Case(t *rapid.T) C08Case {
	c := C08Case{
		EPN:     rapid.SampledFrom([]int{2, 3, 4, 8, 4096}).Draw(t, "epn"),
		KeyLast: rapid.Bool().Draw(t, "keylast"),
	}
	seen := map[string]bool{}
	row := func() (C08Row, bool) {
		k := rapid.OneOf(genKeyVal(), genFidelityVal()).Draw(t, "k")
		if k.K == "n" || (k.K == "r" && k.Real() != k.Real()) {
			return C08Row{}, false
		}
		id := keyClassID(k)
		if seen[id] {
			return C08Row{}, false
		}
		seen[id] = true
		r := C08Row{K: k}
		if rapid.IntRange(0, 4).Draw(t, "hasA") != 0 {
			v := genFidelityVal().Draw(t, "a")
			r.A = &v
		}
		if rapid.IntRange(0, 2).Draw(t, "hasB") != 0 {
			v := genFidelityVal().Draw(t, "b")
			r.B = &v
		}
		return r, true
	}
	n1 := rapid.IntRange(1, 25).Draw(t, "n1")
	for i := 0; i < n1; i++ {
		if r, ok := row(); ok {
			c.Rows1 = append(c.Rows1, r)
		}
	}
	n2 := rapid.IntRange(0, 10).Draw(t, "n2")
	for i := 0; i < n2; i++ {
		if r, ok := row(); ok {
			c.Rows2 = append(c.Rows2, r)
		}
	}
	nolder := rapid.IntRange(0, 4).Draw(t, "nolder")
	for i := 0; i < nolder && len(c.Rows1) > 0; i++ {
		base := c.Rows1[rapid.IntRange(0, len(c.Rows1)-1).Draw(t, "olderkey")]
		if base.maybeUnstorable() || base.hasEmptyText() {
			continue
		}
		r := C08Row{K: base.K}
		va, vb := genFidelityVal().Draw(t, "oa"), genFidelityVal().Draw(t, "ob")
		r.A, r.B = &va, &vb
		if r.maybeUnstorable() || r.hasEmptyText() {
			continue
		}
		c.Older = append(c.Older, r)
	}
	nupd := rapid.IntRange(0, 6).Draw(t, "nupd")
	cur := map[string]*Val{} // what each cell holds at that point
	for i := 0; i < nupd && len(c.Rows1) > 0; i++ {
		ri := rapid.IntRange(0, len(c.Rows1)-1).Draw(t, "updrow")
		base := c.Rows1[ri]
		if base.maybeUnstorable() || base.hasEmptyText() {
			continue
		}
		col := rapid.SampledFrom([]string{"a", "b"}).Draw(t, "updcol")
		ck := fmt.Sprintf("%d.%s", ri, col)
		if _, ok := cur[ck]; !ok {
			if col == "a" {
				cur[ck] = base.A
			} else {
				cur[ck] = base.B
			}
		}
		var v Val
		if old := cur[ck]; old != nil && old.K != "n" && rapid.Bool().Draw(t, "updrelated") {
			v = related(t, *old, "upd")
			if old.K == "r" && old.Real() == 0 && rapid.Bool().Draw(t, "negzero") {
				v = vReal(-old.Real()) // 0.0 <-> -0.0
			}
		} else {
			v = genFidelityVal().Draw(t, "updv")
		}
		if v.isEmptyText() || (v.K == "t" && !utf8.Valid(v.Bytes())) {
			continue
		}
		vv := v
		cur[ck] = &vv
		c.Updates = append(c.Updates, C08Upd{Row: ri, Col: col, V: v})
	}
	c.TxnN = rapid.IntRange(0, 6).Draw(t, "txn")
	c.DelN = rapid.IntRange(0, 5).Draw(t, "del")
	return c
}

func (r C08Row) insertSQL(table string) (string, []interface{}) {
	cols := []string{"k"}
	args := []interface{}{r.K.Arg()}
	if r.A != nil {
		cols = append(cols, "a")
		args = append(args, r.A.Arg())
	}
	if r.B != nil {
		cols = append(cols, "b")
		args = append(args, r.B.Arg())
	}
	return fmt.Sprintf("insert into %s(%s) values (%s)", table, strings.Join(cols, ","), strings.TrimSuffix(strings.Repeat("?,", len(cols)), ",")), args
}

func (r C08Row) vals() []Val {
	out := []Val{r.K}
	if r.A != nil {
		out = append(out, *r.A)
	}
	if r.B != nil {
		out = append(out, *r.B)
	}
	return out
}

func (r C08Row) hasEmptyText() bool {
	for _, v := range r.vals() {
		if v.isEmptyText() {
			return true
		}
	}
	return false
}

// unstorable: TEXT that is not valid UTF-8 may be refused (never altered).
func (r C08Row) maybeUnstorable() bool {
	for _, v := range r.vals() {
		if v.K == "t" && !utf8.Valid(v.Bytes()) {
			return true
		}
	}
	return false
}

const c08Query = "select k, typeof(k), a, typeof(a), b, typeof(b) from "

func runC08(c C08Case, o *Obs) error {
	bucket, _ := newBucket(nil)
	defer fakes3.Unregister(bucket)
	nat := newConn()
	defer nat.Close()
	decl := "k primary key, a, b"
	if c.KeyLast {
		decl = "a, b, k primary key"
	}
	if err := nat.Exec("create table n(" + decl + ") without rowid"); err != nil {
		return err
	}
	w1 := newConn()
	defer func() { w1.Close() }()
	w2 := newConn()
	defer w2.Close()
	t1, t2 := uniqName("t"), uniqName("t")
	spec1 := TableSpec{Name: t1, Columns: decl, Bucket: bucket, Client: "w1", EPN: c.EPN}
	spec2 := TableSpec{Name: t2, Columns: decl, Bucket: bucket, Client: "w2", EPN: c.EPN}
	if err := w1.Create(spec1); err != nil {
		return fmt.Errorf("create w1: %v", err)
	}
	if err := w2.Create(spec2); err != nil {
		return fmt.Errorf("create w2: %v", err)
	}
	wt := int64(1000) // writer 1 and the disjoint rows of writer 2; writer 2's "older" rows use 1..999
	stage := "fresh"

	compare := func(conn *Conn, table, where string) error {
		a, err := nat.Query(c08Query + "n")
		if err != nil {
			return fmt.Errorf("%s: native: %v", where, err)
		}
		b, err := conn.Query(c08Query + table)
		if err != nil {
			return fmt.Errorf("%s: scan fails: %v", where, err)
		}
		if !a.Sorted().Equal(b.Sorted()) {
			return fmt.Errorf("%s: values read back differ from what was written (k, typeof, a, typeof, b, typeof).\nsqlite:\n%ss3db:\n%s", where, a.Sorted(), b.Sorted())
		}
		if tableHeight(table) >= 1 && (stage == "merged" || stage == "vacuumed") {
			o.NonTrivial = true
			o.Class("read-after-" + stage + "-height>=1")
		}
		return nil
	}

	insert := func(conn *Conn, table *string, spec TableSpec, r C08Row, inTxn bool, where string) error {
		if r.hasEmptyText() && !c.NoSteer {
			o.Exclude("K1-empty-text")
			return nil
		}
		wt += 3
		if err := conn.SetWriteTime(baseTime + wt); err != nil {
			return err
		}
		q, args := r.insertSQL(*table)
		err := conn.Exec(q, args...)
		if err != nil {
			if !r.maybeUnstorable() {
				return fmt.Errorf("%s: INSERT of %v refused: %v", where, r.vals(), err)
			}
			// refused: must leave the table usable and the row absent
			o.Class("refused-invalid-utf8")
			if inTxn {
				if e := conn.Exec("rollback"); e != nil && !strings.Contains(e.Error(), "no transaction") {
					return fmt.Errorf("%s: rollback after refused value: %v", where, e)
				}
				return errRefusedInTxn
			}
			// take a fresh handle (a failed statement leaves a shared snapshot behind: K4)
			if e := conn.Drop(*table); e != nil {
				return fmt.Errorf("%s: drop after refused value: %v", where, e)
			}
			if e := conn.Create(spec); e != nil {
				return fmt.Errorf("%s: table unusable after a refused value: %v", where, e)
			}
			return compareAfterRefusal
		}
		nq, nargs := r.insertSQL("n")
		if nerr := nat.Exec(nq, nargs...); nerr != nil {
			return fmt.Errorf("%s: harness: native refuses %v: %v", where, r.vals(), nerr)
		}
		return nil
	}

	// writer 1: the first TxnN rows in one transaction, the rest in autocommit mode
	i := 0
	if c.TxnN > 0 && len(c.Rows1) > 0 {
		// rows that may be refused are kept out of the transaction
		if err := w1.Exec("begin"); err != nil {
			return err
		}
		if err := nat.Exec("begin"); err != nil {
			return err
		}
		for ; i < c.TxnN && i < len(c.Rows1); i++ {
			if c.Rows1[i].maybeUnstorable() {
				continue
			}
			if err := insert(w1, &t1, spec1, c.Rows1[i], true, fmt.Sprintf("w1 row %d (txn)", i)); err != nil {
				return err
			}
		}
		if err := w1.Exec("commit"); err != nil {
			return fmt.Errorf("commit: %v", err)
		}
		if err := nat.Exec("commit"); err != nil {
			return err
		}
		o.Class("txn")
	}
	for ; i < len(c.Rows1); i++ {
		where := fmt.Sprintf("w1 row %d", i)
		err := insert(w1, &t1, spec1, c.Rows1[i], false, where)
		if err == compareAfterRefusal {
			if err := compare(w1, t1, where+" after refusal"); err != nil {
				return err
			}
			continue
		}
		if err != nil {
			return err
		}
	}
	for j, u := range c.Updates {
		if u.Row >= len(c.Rows1) || (u.Col != "a" && u.Col != "b") {
			continue
		}
		base := c.Rows1[u.Row]
		if base.maybeUnstorable() || (base.hasEmptyText() && !c.NoSteer) {
			continue
		}
		wt += 3
		if err := w1.SetWriteTime(baseTime + wt); err != nil {
			return err
		}
		if err := w1.Exec("update "+t1+" set "+u.Col+"=? where k=?", u.V.Arg(), base.K.Arg()); err != nil {
			return fmt.Errorf("w1 update %d: UPDATE %s=%v of key %v refused: %v", j, u.Col, u.V, base.K, err)
		}
		if err := nat.Exec("update n set "+u.Col+"=? where k=?", u.V.Arg(), base.K.Arg()); err != nil {
			return fmt.Errorf("w1 update %d: harness: native refuses: %v", j, err)
		}
		o.Class("cell-updated")
	}
	stage = "committed"
	if err := compare(w1, t1, "after commit"); err != nil {
		return err
	}
	// another process
	w1.Close()
	w1 = newConn()
	if err := w1.Create(spec1); err != nil {
		return fmt.Errorf("re-open on a new connection: %v", err)
	}
	stage = "reopened"
	if err := compare(w1, t1, "after re-open by another connection"); err != nil {
		return err
	}
	// writer 2 (has not seen writer 1's rows) first writes older versions of some of writer 1's keys
	seenOlder := map[string]bool{}
	for j, r := range c.Older {
		id := keyClassID(r.K)
		if seenOlder[id] || j >= 900 {
			continue
		}
		seenOlder[id] = true
		if err := w2.SetWriteTime(baseTime + int64(j+1)); err != nil {
			return err
		}
		q, args := r.insertSQL(t2)
		if err := w2.Exec(q, args...); err != nil {
			return fmt.Errorf("w2 older row %d: INSERT of %v refused: %v", j, r.vals(), err)
		}
		o.Class("older-version-of-a-key-on-the-other-writer")
	}
	// then commits its own rows; writer 1 merges everything
	for j, r := range c.Rows2 {
		where := fmt.Sprintf("w2 row %d", j)
		err := insert(w2, &t2, spec2, r, false, where)
		if err == compareAfterRefusal {
			continue
		}
		if err != nil {
			return err
		}
	}
	if err := w1.Refresh(t1); err != nil {
		return fmt.Errorf("refresh: %v", err)
	}
	stage = "merged"
	if err := compare(w1, t1, "after merging another writer's version"); err != nil {
		return err
	}
	// delete a few rows, vacuum with a cutoff after every write
	for j := 0; j < c.DelN && j < len(c.Rows1); j++ {
		wt += 3
		if err := w1.SetWriteTime(baseTime + wt); err != nil {
			return err
		}
		if err := w1.Exec("delete from "+t1+" where k=?", c.Rows1[j].K.Arg()); err != nil {
			return fmt.Errorf("delete: %v", err)
		}
		if err := nat.Exec("delete from n where k=?", c.Rows1[j].K.Arg()); err != nil {
			return err
		}
	}
	if err := w1.Vacuum(t1, baseTime+wt+1000); err != nil {
		return fmt.Errorf("vacuum: %v", err)
	}
	stage = "vacuumed"
	if err := compare(w1, t1, "after vacuum"); err != nil {
		return err
	}
	fc := newConn()
	defer fc.Close()
	fs := spec1
	fs.Name, fs.Client, fs.ReadOnly = uniqName("f"), "fresh", true
	if err := fc.Create(fs); err != nil {
		return fmt.Errorf("fresh read-only open after vacuum: %v", err)
	}
	return compare(fc, fs.Name, "fresh open after vacuum")
}

var (
	compareAfterRefusal = fmt.Errorf("refused (autocommit)")
	errRefusedInTxn     = fmt.Errorf("refused inside a transaction")
)

func init() { register("TestC08_Fidelity", runC08) }

func TestC08_Fidelity(t *testing.T) {
	st := newStats(t, "C08", "TestC08_Fidelity", "tables (entries_per_node 2..4096, key column first or last) filled by two writers with 1-35 rows (writer 2, which never sees writer 1's rows, also writes older versions with other values of up to 4 of writer 1's keys, so the merge has to let writer 1's later INSERT win column by column, NULL and unmentioned columns included) whose key, a and b are drawn from boundary-seeded generators of every storage class (64-bit edges, +-0, subnormals, +-Inf, NaN, multi-byte/embedded-NUL/long text, blobs of length 0..300, NULL, omitted columns, TEXT that is not valid UTF-8); the same parameters are bound into a native table; (value, typeof) of every cell is compared exactly after commit, after re-open on a new connection, after merging the other writer's version, after delete+vacuum, and from a fresh read-only open; invalid UTF-8 may be refused (table must stay usable) but never altered; non-trivial = a comparison after merge or vacuum on a tree of height>=1")
	st.Assume = append(st.Assume, "rows containing an empty TEXT are not written (known finding K1), counted under excluded")
	checkRapid(t, st, genC08Case, runC08)
}
