package checks

// Multi-writer histories: several s3db tables (one connection each) on one
// bucket prefix, statements with explicit write times, refreshes, retries,
// partial opens, and observers that merge the committed versions in chosen
// orders. Oracles: all observers agree (metamorphic) and agree with the
// operation-based model of Appendix A.

import (
	"fmt"
	"sort"
	"strings"
	"sync"
	"time"

	"github.com/jrhy/s3db/kv"
	"pgregory.net/rapid"

	"verif/fakes3"
)

// ---------------------------------------------------------------------------
// merge-order hook

var (
	permMu    sync.Mutex
	permCode  []int         // Lehmer-style code applied to the creation-ordered version list
	permStore *fakes3.Store // to look up creation order
	permPref  string
	permSeen  int // size of the largest version list permuted since reset
)

func init() {
	kv.VerifPermute = func(roots []string) {
		permMu.Lock()
		defer permMu.Unlock()
		if permStore == nil {
			sort.Strings(roots)
			return
		}
		st, pref := permStore, permPref
		sort.Slice(roots, func(i, j int) bool {
			bi, bj := st.Born(pref+"root/current/"+roots[i]), st.Born(pref+"root/current/"+roots[j])
			if bi == 0 {
				bi = st.Born(pref + "root/merged/" + roots[i])
			}
			if bj == 0 {
				bj = st.Born(pref + "root/merged/" + roots[j])
			}
			if bi != bj {
				return bi < bj
			}
			return roots[i] < roots[j]
		})
		n := len(roots)
		if n > permSeen {
			permSeen = n
		}
		for i := 0; i < n-1; i++ {
			c := 0
			if i < len(permCode) {
				c = permCode[i]
			}
			j := i + c%(n-i)
			roots[i], roots[j] = roots[j], roots[i]
		}
	}
}

// setPerm installs the merge order for the opens that follow.
func setPerm(st *fakes3.Store, prefix string, code []int) {
	permMu.Lock()
	permStore, permPref, permCode = st, prefix, code
	permMu.Unlock()
}

func resetPermSeen() int {
	permMu.Lock()
	defer permMu.Unlock()
	n := permSeen
	permSeen = 0
	return n
}

// ---------------------------------------------------------------------------

type MWStep struct {
	Op    string `json:"op"` // stmt txn refresh retry partial observe vacuum vactxn
	W     int    `json:"w"`
	Stmts []Stmt `json:"stmts,omitempty"`
	Ref   int    `json:"ref,omitempty"`  // retry: index into the list of statements issued so far
	Perm  []int  `json:"perm,omitempty"` // merge order code for the open(s) of this step
	Mask  int    `json:"mask,omitempty"` // partial: which current versions the opener is shown
	Cut   int64  `json:"cut,omitempty"`  // vacuum: cutoff, seconds after baseTime; -1 = year 2100
	// Rollback (txn): the transaction ends with ROLLBACK; nothing of it may remain
	Rollback bool `json:"rollback,omitempty"`
	// RetireFault (stmt): while the statement commits, the requests that retire its parent
	// version fail (the commit is acknowledged all the same; the parent stays listed)
	RetireFault bool `json:"retire_fault,omitempty"`
	// VacFault (vacuum): the vacuum runs under a storage fault: "node-deletes" / "version-deletes"
	// = every DELETE of a node / version object by the vacuuming writer fails, "merged-deletes" = only those of
	// superseded versions under root/merged/ (the last phase of a vacuum); "nth-list" / "nth-get" = one LIST / GET of the
	// vacuuming writer fails (the Mask-th LIST, the 4*Mask-th GET); "from" = every
	// mutating request from the Mask-th on fails
	VacFault string `json:"vac_fault,omitempty"`
}

type MWCase struct {
	EPN       int      `json:"epn"`
	NWriters  int      `json:"nwriters"`
	NKeys     int      `json:"nkeys"`
	Steps     []MWStep `json:"steps"`
	Mode      string   `json:"mode,omitempty"` // "", "c09", "c10": which vacuum oracles are active
	SmallVals bool     `json:"small_vals,omitempty"`
	// Cache: node_cache_entries of the writers' tables. Used with entries_per_node=4096 only
	// (single-node trees): on multi-node trees the node cache and rollbacks run into K4.
	Cache int `json:"cache,omitempty"`
	// Frac: write times in quarters of a second (histories without vacuum only: cutoffs are seconds)
	Frac bool `json:"frac,omitempty"`
}

type mwGenCfg struct {
	maxWriters                                        int
	keyChoices                                        []int
	maxSteps                                          int
	wStmt, wTxn, wRefresh, wRetry, wPartial, wObserve int
	wIns, wUpd, wDel                                  int
	multiRow                                          bool
	wVacuum                                           int
	mode                                              string
	smallVals                                         bool
	// cacheAndRollback: on single-node trees, writers may use a node cache and
	// transactions may end in ROLLBACK
	cacheAndRollback bool
	// returnPattern (one in N cases, 0 = never): the history starts by writing a row, deleting
	// it, vacuuming everything away (year-2100 cutoff) and writing the byte-identical row again
	// through another connection of the process, with node caches on and a single-node tree:
	// the table returns to a content whose node object was deleted in between
	returnPattern int
}

func genPerm(t *rapid.T, label string) []int {
	return rapid.SliceOfN(rapid.IntRange(0, 5), 0, 5).Draw(t, label)
}

func genMWCase(t *rapid.T, g mwGenCfg) MWCase {
	c := MWCase{
		EPN:      rapid.SampledFrom([]int{2, 3, 4, 4096}).Draw(t, "epn"),
		NWriters: rapid.IntRange(1, g.maxWriters).Draw(t, "nwriters"),
		NKeys:    rapid.SampledFrom(g.keyChoices).Draw(t, "nkeys"),
	}
	vals := smallVals()
	if g.smallVals {
		// few values, so that a table often returns to an earlier content
		vals = rapid.SampledFrom([]Val{vNull(), vInt(1), vInt(2)})
	}
	c.Mode, c.SmallVals = g.mode, g.smallVals
	single := g.cacheAndRollback && c.EPN == 4096
	if single {
		c.Cache = rapid.SampledFrom([]int{0, 3, 1000}).Draw(t, "cache")
	}
	if g.wVacuum == 0 && (g.mode == "" || g.mode == "c15") {
		c.Frac = rapid.Bool().Draw(t, "frac")
	}
	withReturn := g.returnPattern > 0 && rapid.IntRange(0, g.returnPattern-1).Draw(t, "returnpattern") == 0
	if withReturn {
		c.EPN = 4096
		c.Cache = rapid.SampledFrom([]int{3, 1000}).Draw(t, "rcache")
		if c.NWriters < 2 {
			c.NWriters = 2
		}
	}
	cfg := stmtGenCfg{keys: intKeys(c.NKeys), cols: wideCols, vals: vals, multiRow: g.multiRow, wIns: g.wIns, wUpd: g.wUpd, wDel: g.wDel}
	n := rapid.IntRange(2, g.maxSteps).Draw(t, "nsteps")
	tot := g.wStmt + g.wTxn + g.wRefresh + g.wRetry + g.wPartial + g.wObserve + g.wVacuum
	nstmts := 0
	var times []int64
	stamp := func(s *Stmt) {
		slot := rapid.IntRange(0, 40).Draw(t, "slot")
		s.T = int64(slot*256 + nstmts + 1) // unique per statement, arbitrary order
		nstmts++
		times = append(times, s.T)
	}
	for i := 0; i < n; i++ {
		r := rapid.IntRange(0, tot-1).Draw(t, "op")
		w := rapid.IntRange(0, c.NWriters-1).Draw(t, "w")
		switch {
		case r < g.wStmt:
			s := genStmt(t, cfg, "s")
			stamp(&s)
			rf := g.wVacuum > 0 && rapid.IntRange(0, 7).Draw(t, "retirefault") == 0
			c.Steps = append(c.Steps, MWStep{Op: "stmt", W: w, Stmts: []Stmt{s}, RetireFault: rf})
		case r < g.wStmt+g.wTxn:
			k := rapid.IntRange(1, 3).Draw(t, "ntx")
			st := MWStep{Op: "txn", W: w}
			if single {
				st.Rollback = rapid.IntRange(0, 2).Draw(t, "rollback") == 0
			}
			for j := 0; j < k; j++ {
				s := genStmt(t, cfg, "s")
				stamp(&s)
				st.Stmts = append(st.Stmts, s)
			}
			c.Steps = append(c.Steps, st)
		case r < g.wStmt+g.wTxn+g.wRefresh:
			c.Steps = append(c.Steps, MWStep{Op: "refresh", W: w, Perm: genPerm(t, "perm")})
		case r < g.wStmt+g.wTxn+g.wRefresh+g.wRetry:
			if nstmts > 0 {
				c.Steps = append(c.Steps, MWStep{Op: "retry", W: w, Ref: rapid.IntRange(0, nstmts-1).Draw(t, "ref")})
			}
		case r < g.wStmt+g.wTxn+g.wRefresh+g.wRetry+g.wPartial:
			c.Steps = append(c.Steps, MWStep{Op: "partial", Perm: genPerm(t, "perm"), Mask: rapid.IntRange(1, 63).Draw(t, "mask")})
		case r < g.wStmt+g.wTxn+g.wRefresh+g.wRetry+g.wPartial+g.wObserve:
			c.Steps = append(c.Steps, MWStep{Op: "observe", Perm: genPerm(t, "perm")})
		default:
			// cutoffs: before everything, equal to / just after a write time, after all, year 2100
			cut := int64(0)
			switch rapid.IntRange(0, 5).Draw(t, "cutkind") {
			case 0:
				cut = 0
			case 1, 2:
				if len(times) > 0 {
					cut = rapid.SampledFrom(times).Draw(t, "cutat") + int64(rapid.IntRange(0, 1).Draw(t, "cutplus"))
				}
			case 3:
				cut = 41 * 256
			default:
				cut = -1
				if rapid.IntRange(0, 3).Draw(t, "y2300") == 0 {
					cut = -2 // year 2300: like -1, but the nanosecond count does not fit 64 bits
				}
			}
			vs := MWStep{Op: "vacuum", W: w, Cut: cut}
			if (g.mode == "c09" || g.mode == "c10") && rapid.IntRange(0, 3).Draw(t, "vacfault") == 0 {
				vs.VacFault = rapid.SampledFrom([]string{"node-deletes", "version-deletes", "merged-deletes", "merged-deletes", "from", "nth-list", "nth-list", "nth-get", "nth-get"}).Draw(t, "vacfaultkind")
				vs.Mask = rapid.IntRange(1, 8).Draw(t, "vacfaultat")
			}
			c.Steps = append(c.Steps, vs)
		}
	}
	if !withReturn && (g.mode == "c09" || g.mode == "c10") && rapid.IntRange(0, 3).Draw(t, "protpattern") == 0 {
		// Targeted region: the protection walk of a vacuum matters and runs under a read fault.
		// A populated multi-node table; writer 1 stays on the common version P; writer 0 deletes a
		// row (so its vacuum rewrites part of the tree); writer 1 updates another row (its version
		// still shares P's other nodes); writer 0 vacuums with the year-2100 cutoff while one
		// of its LISTs or GETs fails.
		c.EPN = rapid.SampledFrom([]int{2, 3, 4}).Draw(t, "pepn")
		if c.NWriters < 2 {
			c.NWriters = 2
		}
		if c.NKeys < 10 {
			c.NKeys = 10
		}
		ks := intKeys(c.NKeys)
		fill := Stmt{Kind: "ins", Cols: []string{"a"}, T: -10}
		for i, k := range ks {
			fill.Keys = append(fill.Keys, k)
			fill.Vals = append(fill.Vals, []Val{vInt(int64(i % 3))})
		}
		ia := rapid.IntRange(0, len(ks)-1).Draw(t, "pdel")
		ib := (ia + 1 + rapid.IntRange(0, len(ks)-2).Draw(t, "pupd")) % len(ks)
		pat := []MWStep{
			{Op: "stmt", W: 0, Stmts: []Stmt{fill}},
			{Op: "refresh", W: 1},
			{Op: "stmt", W: 0, Stmts: []Stmt{{Kind: "del", Keys: []Val{ks[ia]}, T: -8}}},
			{Op: "stmt", W: 1, Stmts: []Stmt{{Kind: "upd", Keys: []Val{ks[ib]}, Cols: []string{"b"}, Vals: [][]Val{{vInt(2)}}, T: -7}}},
			{Op: "vacuum", W: 0, Cut: -1, VacFault: rapid.SampledFrom([]string{"nth-get", "nth-get", "nth-list", "merged-deletes", "from", "from"}).Draw(t, "pfault"), Mask: rapid.IntRange(1, 12).Draw(t, "pmask")},
			{Op: "observe"},
			// and the history goes on with a fault-free vacuum: what the first one left behind
			// must not be in its way
			{Op: "stmt", W: 0, Stmts: []Stmt{{Kind: "upd", Keys: []Val{ks[ib]}, Cols: []string{"c"}, Vals: [][]Val{{vInt(1)}}, T: -6}}},
			{Op: "vacuum", W: 0, Cut: -1},
			{Op: "observe"},
		}
		c.Steps = append(pat, c.Steps...)
	} else if withReturn {
		k := rapid.SampledFrom(intKeys(c.NKeys)).Draw(t, "rkey")
		col := rapid.SampledFrom(wideCols).Draw(t, "rcol")
		ins := Stmt{Kind: "ins", Keys: []Val{k}, Cols: []string{col}, Vals: [][]Val{{vInt(1)}}, T: -30}
		pat := []MWStep{
			{Op: "stmt", W: 0, Stmts: []Stmt{ins}},
			{Op: "stmt", W: 0, Stmts: []Stmt{{Kind: "del", Keys: []Val{k}, T: -29}}},
			{Op: "vacuum", W: 0, Cut: -1},
			{Op: "stmt", W: rapid.IntRange(0, 1).Draw(t, "rw"), Stmts: []Stmt{ins}},
			{Op: "observe"},
		}
		c.Steps = append(pat, c.Steps...)
	} else if g.wVacuum > 0 && rapid.Bool().Draw(t, "prefill") {
		// a populated table from the start (one multi-row INSERT before everything else), so
		// that trees have several nodes and consecutive versions share most of them
		st := Stmt{Kind: "ins", Cols: []string{"a"}, T: -10}
		for i, k := range intKeys(c.NKeys) {
			st.Keys = append(st.Keys, k)
			st.Vals = append(st.Vals, []Val{vInt(int64(i % 3))})
		}
		c.Steps = append([]MWStep{{Op: "stmt", W: 0, Stmts: []Stmt{st}}}, c.Steps...)
	}
	if g.wVacuum > 0 && rapid.IntRange(0, 5).Draw(t, "vactxnpattern") == 0 {
		// Targeted region: s3db_vacuum called INSIDE a transaction that has joined the table
		// without changing it (an UPDATE that matches no row), with something to purge, then
		// ROLLBACK or COMMIT. The call may be refused or may run; either way the connection
		// must go on reading its rows and nothing retained may refer to a deleted object.
		w := rapid.IntRange(0, c.NWriters-1).Draw(t, "vtw")
		key := rapid.SampledFrom(intKeys(c.NKeys)).Draw(t, "vtkey")
		pat := []MWStep{
			{Op: "stmt", W: w, Stmts: []Stmt{{Kind: "ins", Keys: []Val{key}, Cols: []string{"a"}, Vals: [][]Val{{vInt(1)}}, T: 50*256 + 1}}},
			{Op: "stmt", W: w, Stmts: []Stmt{{Kind: "del", Keys: []Val{key}, T: 50*256 + 2}}},
			{Op: "vactxn", W: w, Cut: -1, Rollback: rapid.IntRange(0, 2).Draw(t, "vtrollback") != 0},
			{Op: "observe"},
		}
		pos := rapid.IntRange(0, len(c.Steps)).Draw(t, "vtpos")
		c.Steps = append(append(append([]MWStep{}, c.Steps[:pos]...), pat...), c.Steps[pos:]...)
	}
	if g.wVacuum > 0 && rapid.IntRange(0, 5).Draw(t, "emptiedpattern") == 0 {
		// Targeted region: a table emptied completely (DELETE without WHERE), vacuumed with a
		// cutoff after the delete time but before the creation time of any version (write times
		// lie years before "now"), then with the year-2100 cutoff: the first vacuum purges every
		// row and must keep the (empty) current version, the second reclaims all history.
		w := rapid.IntRange(0, c.NWriters-1).Draw(t, "emw")
		pat := []MWStep{
			{Op: "refresh", W: w},
			{Op: "stmt", W: w, Stmts: []Stmt{{Kind: "del", T: 50*256 + 3}}},
			{Op: "vacuum", W: w, Cut: 50*256 + 4},
			{Op: "observe"},
			// (the next vacuum re-opens every version recorded so far that was created after its
			// cutoff: among them the empty version the first one committed)
			{Op: "vacuum", W: w, Cut: 50*256 + 5},
			{Op: "vacuum", W: w, Cut: -1},
			{Op: "observe"},
		}
		pos := rapid.IntRange(0, len(c.Steps)).Draw(t, "empos")
		c.Steps = append(append(append([]MWStep{}, c.Steps[:pos]...), pat...), c.Steps[pos:]...)
	}
	if g.wVacuum > 0 && c.NKeys >= 2 && rapid.IntRange(0, 2).Draw(t, "pattern2") == 0 {
		// Targeted region: two rows deleted at different times and a cutoff between the two
		// delete times (or equal to the later one): one marker must go, the other must stay
		w := rapid.IntRange(0, c.NWriters-1).Draw(t, "p2w")
		ks := intKeys(c.NKeys)
		ia := rapid.IntRange(0, len(ks)-1).Draw(t, "p2a")
		ib := (ia + 1 + rapid.IntRange(0, len(ks)-2).Draw(t, "p2b")) % len(ks)
		t0, t1, t3 := int64(46*256+1), int64(47*256+2), int64(49*256+3)
		cut := rapid.SampledFrom([]int64{t1 + 1, 48 * 256, t3, t3 - 1}).Draw(t, "p2cut")
		pat := []MWStep{
			{Op: "stmt", W: w, Stmts: []Stmt{{Kind: "ins", Keys: []Val{ks[ia]}, Cols: []string{"a"}, Vals: [][]Val{{vInt(1)}}, T: t0}}},
			{Op: "stmt", W: w, Stmts: []Stmt{{Kind: "ins", Keys: []Val{ks[ib]}, Cols: []string{"b"}, Vals: [][]Val{{vInt(2)}}, T: t0 + 1}}},
			{Op: "stmt", W: w, Stmts: []Stmt{{Kind: "del", Keys: []Val{ks[ia]}, T: t1}}},
			{Op: "stmt", W: w, Stmts: []Stmt{{Kind: "del", Keys: []Val{ks[ib]}, T: t3}}},
			{Op: "vacuum", W: w, Cut: cut},
		}
		pos := rapid.IntRange(0, len(c.Steps)).Draw(t, "p2pos")
		c.Steps = append(append(append([]MWStep{}, c.Steps[:pos]...), pat...), c.Steps[pos:]...)
	}
	if g.wVacuum > 0 && rapid.IntRange(0, 2).Draw(t, "pattern") == 0 {
		// Targeted region (uniform draws rarely reach it): a row whose delete time is older
		// than its stored modification time (a later-stamped column write is kept with the
		// deleted row), vacuumed with a cutoff between the two, then inserted again.
		w := rapid.IntRange(0, c.NWriters-1).Draw(t, "pw")
		key := rapid.SampledFrom(intKeys(c.NKeys)).Draw(t, "pkey")
		t0, t1, t2, t3 := int64(42*256+1), int64(43*256+2), int64(44*256+3), int64(45*256+4)
		cut := rapid.SampledFrom([]int64{t1 + 1, t2, t2 - 1}).Draw(t, "pcut")
		pat := []MWStep{
			{Op: "stmt", W: w, Stmts: []Stmt{{Kind: "ins", Keys: []Val{key}, Cols: []string{"a"}, Vals: [][]Val{{vInt(1)}}, T: t0}}},
			{Op: "stmt", W: w, Stmts: []Stmt{{Kind: "upd", Keys: []Val{key}, Cols: []string{"b"}, Vals: [][]Val{{vInt(2)}}, T: t2}}},
			{Op: "stmt", W: w, Stmts: []Stmt{{Kind: "del", Keys: []Val{key}, T: t1}}},
			{Op: "vacuum", W: w, Cut: cut},
			{Op: "stmt", W: w, Stmts: []Stmt{{Kind: "ins", Keys: []Val{key}, Cols: []string{"c"}, Vals: [][]Val{{vInt(1)}}, T: t3}}},
		}
		pos := rapid.IntRange(0, len(c.Steps)).Draw(t, "ppos")
		c.Steps = append(append(append([]MWStep{}, c.Steps[:pos]...), pat...), c.Steps[pos:]...)
	}
	return c
}

// ---------------------------------------------------------------------------

type mwWriter struct {
	conn *Conn
	name string
	view MSet
}

type mwRun struct {
	c              MWCase
	o              *Obs
	bucket         string
	store          *fakes3.Store
	prefix         string
	ws             []*mwWriter
	pub            map[string]MSet // version name -> operations it contains
	all            MSet            // union of everything committed
	issued         []Stmt
	effective      []bool // per issued statement: did it add an operation when first run
	writersOfKey   map[string]map[int]bool
	spec           TableSpec
	snaps          []verSnap
	snapAt         map[string]int
	farVacuumed    bool
	interrupted    map[string]bool // superseded versions present during a vacuum that ran under a fault
	hadRetireFault bool
	keyTimeWriter  map[string]string // key@time -> writer and effect of the statement that used it
	obsN           int
	opsAdded       int
	ro             *roState
	closers        []func()
}

const mwCols = "k primary key, a, b, c"

func newMWRun(c MWCase, o *Obs) (*mwRun, error) {
	r := &mwRun{c: c, o: o, pub: map[string]MSet{}, all: MSet{}, writersOfKey: map[string]map[int]bool{}}
	r.bucket, r.store = newBucket(nil)
	r.prefix = tablePrefix("")
	r.spec = TableSpec{Columns: mwCols, Bucket: r.bucket, EPN: c.EPN}
	if c.EPN == 4096 {
		r.spec.Cache = c.Cache
	}
	setPerm(r.store, r.prefix, nil)
	for i := 0; i < c.NWriters; i++ {
		w := &mwWriter{conn: newConn(), name: uniqName("t"), view: MSet{}}
		sp := r.spec
		sp.Name, sp.Client = w.name, fmt.Sprintf("w%d", i)
		if err := w.conn.Create(sp); err != nil {
			r.close()
			return nil, fmt.Errorf("create writer %d: %v", i, err)
		}
		r.ws = append(r.ws, w)
	}
	return r, nil
}

func (r *mwRun) close() {
	for _, f := range r.closers {
		f()
	}
	for _, w := range r.ws {
		w.conn.Close()
	}
	fakes3.Unregister(r.bucket)
	setPerm(nil, "", nil)
}

func (r *mwRun) currentNames() []string {
	names := currentVersions(r.store, r.prefix)
	sort.Slice(names, func(i, j int) bool {
		return r.store.Born(r.prefix+"root/current/"+names[i]) < r.store.Born(r.prefix+"root/current/"+names[j])
	})
	return names
}

// publish records what the writer's current version contains.
func (r *mwRun) publish(w *mwWriter) error {
	v, err := w.conn.Version(w.name)
	if err != nil {
		return fmt.Errorf("s3db_version: %v", err)
	}
	for _, name := range parseVersionList(v) {
		// the same name may be recorded again with more operations: a write that loses
		// against what is stored adds an operation to the model but no new version.
		// What a name denotes for readers is its rows, and those must not change.
		if old, ok := r.pub[name]; ok && !old.Rows(wideCols).Equal(w.view.Rows(wideCols)) {
			return fmt.Errorf("version name %s denotes two different row sets:\n%sand\n%s", name, old.Rows(wideCols), w.view.Rows(wideCols))
		}
		r.pub[name] = w.view.Clone()
	}
	r.all.Union(w.view)
	r.recordSnap(v, w.view.Rows(wideCols))
	return nil
}

// setWriteTime: statement time T -> write_time. With Frac the unit of T is a quarter of a second
// (wall-clock write times have a sub-second part; stored offsets then carry nanoseconds,
// negative ones included); the order of the times, which is all the model uses, is the same.
func (r *mwRun) setWriteTime(conn *Conn, t int64) error {
	if !r.c.Frac {
		return conn.SetWriteTime(baseTime + t)
	}
	q, rem := t/4, t%4
	if rem < 0 {
		q, rem = q-1, rem+4
	}
	return conn.Exec("update s3db_conn set write_time=?", time.Unix(baseTime+q, rem*250_000_000).UTC().Format("2006-01-02 15:04:05.000"))
}

// checkWriter compares a writer's visible rows with its model view.
func (r *mwRun) checkWriter(wi int, where string) error {
	w := r.ws[wi]
	got, err := w.conn.Dump(w.name)
	if err != nil {
		return fmt.Errorf("%s: writer %d scan: %v", where, wi, err)
	}
	want := w.view.Rows(wideCols)
	if !got.Equal(want) {
		return fmt.Errorf("%s: writer %d shows rows that differ from the reference model.\ns3db:\n%smodel:\n%s", where, wi, got, want)
	}
	return nil
}

func (r *mwRun) execStmt(wi int, s Stmt, where string, isRetry, inTxn bool) error {
	w := r.ws[wi]
	outcome, added, _ := w.view.Exec(s, wideCols)
	if outcome != "ok" && len(s.Keys) > 1 && (inTxn || r.c.EPN < 4096) {
		// a multi-row INSERT that fails after its first row leaves rows behind inside an
		// explicit transaction (known finding K3) and, once the handle holds a shared
		// snapshot, on multi-node trees (K4): not issued, counted.
		if inTxn {
			r.o.Exclude("K3-multirow-insert-fails-in-transaction")
		} else {
			r.o.Exclude("K4-failing-multirow-insert-on-multi-node-tree")
		}
		if !isRetry {
			r.issued = append(r.issued, s)
			r.effective = append(r.effective, false)
		}
		return nil
	}
	if err := r.setWriteTime(w.conn, s.T); err != nil {
		return fmt.Errorf("%s: set write_time: %v", where, err)
	}
	q, args := s.SQL(w.name, "k")
	err := w.conn.Exec(q, args...)
	cls := errClass(err)
	if cls == "error" {
		return fmt.Errorf("%s: writer %d: %s fails: %v", where, wi, s, err)
	}
	if cls != outcome {
		return fmt.Errorf("%s: writer %d: %s: outcome %s, reference model expects %s", where, wi, s, cls, outcome)
	}
	r.opsAdded += len(added) // counts re-applied identical operations too
	for _, op := range added {
		w.view.Add(op)
		m := r.writersOfKey[op.KeyID]
		if m == nil {
			m = map[int]bool{}
			r.writersOfKey[op.KeyID] = m
		}
		m[wi] = true
	}
	if !isRetry {
		r.issued = append(r.issued, s)
		r.effective = append(r.effective, len(added) > 0)
	}
	return nil
}

// observer opens one fresh table on a store and returns its rows.
func (r *mwRun) observe(st *fakes3.Store, readonly bool, perm []int, client string) (Rows, error) {
	b, _ := newBucket(st)
	defer fakes3.Unregister(b)
	setPerm(st, r.prefix, perm)
	defer setPerm(r.store, r.prefix, nil)
	conn := newConn()
	defer conn.Close()
	sp := r.spec
	sp.Bucket, sp.Name, sp.Client, sp.ReadOnly = b, uniqName("o"), client, readonly
	// every other observer opens the existing table with another entries_per_node (or none):
	// the option only matters for a tree that does not exist yet
	r.obsN++
	if r.obsN%2 == 0 && len(currentVersions(st, r.prefix)) > 0 {
		alts := []int{0, 64, 2, 4096, 7}
		sp.EPN = alts[(r.obsN/2)%len(alts)]
		if sp.EPN != r.spec.EPN {
			r.o.Class("observer-with-other-entries-per-node")
		}
	}
	if err := conn.Create(sp); err != nil {
		return nil, fmt.Errorf("open (readonly=%v, order %v, entries_per_node=%d): %v", readonly, perm, sp.EPN, err)
	}
	rows, err := conn.Dump(sp.Name)
	if err != nil {
		return nil, fmt.Errorf("scan (readonly=%v, order %v): %v", readonly, perm, err)
	}
	return rows, nil
}

// observeAll: all readers of the same set of committed versions must agree.
// expectCurrent is what a reader that merges every current version must see.
func (r *mwRun) expectCurrent(st *fakes3.Store, withMerged bool) (MSet, error) {
	u := MSet{}
	names := currentVersions(st, r.prefix)
	if withMerged {
		names = append(names, mergedVersions(st, r.prefix)...)
	}
	for _, n := range names {
		p, ok := r.pub[n]
		if !ok {
			return nil, fmt.Errorf("harness bug: version %s was never recorded", n)
		}
		u.Union(p)
	}
	return u, nil
}

func (r *mwRun) observeAll(perm []int, where string) error {
	wantSet, err := r.expectCurrent(r.store, false)
	if err != nil {
		return fmt.Errorf("%s: %v", where, err)
	}
	want := wantSet.Rows(wideCols)
	frontier := len(r.currentNames())
	contended := false
	for _, m := range r.writersOfKey {
		if len(m) >= 2 {
			contended = true
		}
	}
	if frontier >= 3 && contended {
		if r.c.Mode == "" {
			r.o.NonTrivial = true
		}
		r.o.Class("observe-frontier>=3-contended")
	}
	if frontier >= 2 {
		r.o.Class("observe-frontier>=2")
	}
	r.o.Class("observe")
	var first Rows
	var firstDesc string
	try := func(desc string, st *fakes3.Store, ro bool, p []int) error {
		rows, err := r.observe(st, ro, p, "obs")
		if err != nil {
			return fmt.Errorf("%s: %s: %v", where, desc, err)
		}
		if first == nil {
			first, firstDesc = rows, desc
		} else if !rows.Equal(first) {
			return fmt.Errorf("%s: two readers of the same committed versions disagree.\n%s:\n%s%s:\n%s", where, firstDesc, first, desc, rows)
		}
		if !rows.Equal(want) {
			return fmt.Errorf("%s: %s: merged rows differ from the reference model.\ns3db:\n%smodel:\n%s", where, desc, rows, want)
		}
		return nil
	}
	rev := make([]int, 6)
	for i := range rev {
		rev[i] = 5 - i
	}
	orders := [][]int{perm, nil, {1, 1, 1, 1, 1}, rev}
	for i, p := range orders {
		if err := try(fmt.Sprintf("reader %d (readonly=%v, order code %v)", i, i%2 == 0, p), r.store.Clone(), i%2 == 0, p); err != nil {
			return err
		}
	}
	// ancestors merged again: every retired version is put back among the current ones
	anc := r.store.Clone()
	n := 0
	for _, name := range mergedVersions(anc, r.prefix) {
		if r.interrupted != nil && r.interrupted[name] {
			continue // may have lost nodes to a vacuum that was cut short (see reach)
		}
		b, _ := anc.Get(r.prefix + "root/merged/" + name)
		anc.Put(r.prefix+"root/current/"+name, b)
		n++
	}
	if n > 0 {
		r.o.Class("observe-with-ancestors")
		ws, err := r.expectCurrent(anc, false)
		if err != nil {
			return fmt.Errorf("%s: %v", where, err)
		}
		want = ws.Rows(wideCols)
		first = nil
		if err := try("reader with all retired versions listed as current again (read-write)", anc, false, perm); err != nil {
			return err
		}
		if err := try("reader with all retired versions listed as current again (read-only)", anc.Clone(), true, rev); err != nil {
			return err
		}
	}
	return nil
}

// quiescence: re-opening a table nobody writes to stops producing versions.
func (r *mwRun) quiescence(where string) error {
	st := r.store.Clone()
	wantSet, err := r.expectCurrent(st, false)
	if err != nil {
		return fmt.Errorf("%s: %v", where, err)
	}
	want := wantSet.Rows(wideCols)
	for i := 0; i < 3; i++ {
		from := st.LogLen()
		rows, err := r.observe(st, false, []int{i, i, i}, fmt.Sprintf("q%d", i))
		if err != nil {
			return fmt.Errorf("%s: quiescent open %d: %v", where, i, err)
		}
		if !rows.Equal(want) {
			return fmt.Errorf("%s: quiescent open %d: rows differ from the reference model.\ns3db:\n%smodel:\n%s", where, i, rows, want)
		}
		cur := currentVersions(st, r.prefix)
		if len(cur) > 1 {
			return fmt.Errorf("%s: after read-write open %d of a quiescent table %d versions are current: %v", where, i, len(cur), cur)
		}
		if i >= 1 {
			if p := putsIn(st.LogSince(from)); len(p) > 0 {
				return fmt.Errorf("%s: re-opening a quiescent table (open %d) still writes: %v", where, i, p)
			}
		}
	}
	return nil
}

// crossWriterTie enforces the precondition of the properties' quantifiers ("pairwise distinct
// write times on conflicting rows"): a statement that touches a key at a write time at which a
// DIFFERENT writer already touched that key is outside the domain (the row status of such a
// pair depends on the merge order). The generators construct distinct times; this is the net
// under them (a hard-coded pattern time once coincided with a drawn one).
func (r *mwRun) crossWriterTie(s MWStep) bool {
	if s.Op != "stmt" && s.Op != "txn" {
		return false
	}
	if r.keyTimeWriter == nil {
		r.keyTimeWriter = map[string]string{}
	}
	seen := map[string]string{}
	for _, st := range s.Stmts {
		for ki, k := range st.Keys {
			id := fmt.Sprintf("%s@%d", k.Cell(), st.T)
			// what the statement does to this key; a byte-identical retry by another writer is
			// inside the quantifier
			what := fmt.Sprintf("%s %v", st.Kind, st.Cols)
			if ki < len(st.Vals) {
				what += fmt.Sprint(st.Vals[ki])
			}
			if prev, ok := r.keyTimeWriter[id]; ok && !strings.HasPrefix(prev, fmt.Sprintf("w%d ", s.W)) && prev[strings.Index(prev, " ")+1:] != what {
				return true
			}
			seen[id] = fmt.Sprintf("w%d %s", s.W, what)
		}
	}
	for id, v := range seen {
		r.keyTimeWriter[id] = v
	}
	return false
}

func (r *mwRun) step(i int, s MWStep) error {
	where := fmt.Sprintf("step %d (%s w%d)", i, s.Op, s.W)
	if r.crossWriterTie(s) {
		r.o.Exclude("step-dropped:cross-writer-same-key-same-write-time(outside-the-quantifier)")
		return nil
	}
	if r.c.Mode == "c11" && (s.Op == "stmt" || s.Op == "txn" || s.Op == "retry" || s.Op == "refresh") {
		// s3db_version changes exactly when the committed contents change
		w := r.ws[s.W]
		vb, err := w.conn.Version(w.name)
		if err != nil {
			return fmt.Errorf("%s: s3db_version: %v", where, err)
		}
		rb, nb := w.view.Rows(wideCols), r.opsAdded
		quiescent := false
		if s.Op == "refresh" {
			cur := r.currentNames()
			own := parseVersionList(vb)
			quiescent = len(cur) == len(own) && strings.Join(sortedCopy(cur), ",") == strings.Join(own, ",")
		}
		if err := r.step1(i, s, where); err != nil {
			return err
		}
		va, err := w.conn.Version(w.name)
		if err != nil {
			return fmt.Errorf("%s: s3db_version: %v", where, err)
		}
		ra := w.view.Rows(wideCols)
		if !ra.Equal(rb) && va == vb {
			return fmt.Errorf("%s: the visible rows changed but s3db_version is still %s", where, va)
		}
		if s.Op != "refresh" && r.opsAdded == nb && va != vb {
			return fmt.Errorf("%s: nothing changed (no row matched / statement refused) but s3db_version went from %s to %s", where, vb, va)
		}
		if quiescent && va != vb {
			return fmt.Errorf("%s: refreshing a quiescent table changed s3db_version from %s to %s", where, vb, va)
		}
		if va == vb {
			r.o.Class("version-unchanged-step")
		}
		return nil
	}
	return r.step1(i, s, where)
}

func (r *mwRun) step1(i int, s MWStep, where string) error {
	switch s.Op {
	case "stmt":
		if s.RetireFault {
			r.hadRetireFault = true
			client := fmt.Sprintf("verif://w%d", s.W)
			r.store.Intercept = func(q *fakes3.Req) error {
				if q.Client == client && ((q.Op == "PUT" && strings.Contains(q.Key, "/root/merged/")) || (q.Op == "DELETE" && strings.Contains(q.Key, "/root/current/"))) {
					r.o.Class("retirement-failed-commit-acknowledged")
					return fakes3.ErrInjected
				}
				return nil
			}
		}
		err := r.execStmt(s.W, s.Stmts[0], where, false, false)
		r.store.Intercept = nil
		if err != nil {
			return err
		}
		if err := r.checkWriter(s.W, where); err != nil {
			return err
		}
		if err := r.publish(r.ws[s.W]); err != nil {
			return fmt.Errorf("%s: %v", where, err)
		}
		return nil
	case "txn":
		w := r.ws[s.W]
		if err := w.conn.Exec("begin"); err != nil {
			return fmt.Errorf("%s: begin: %v", where, err)
		}
		saved, nIssued, nOps := w.view.Clone(), len(r.issued), r.opsAdded
		for _, st := range s.Stmts {
			if err := r.execStmt(s.W, st, where, false, true); err != nil {
				return err
			}
		}
		if s.Rollback && r.c.EPN == 4096 {
			if err := w.conn.Exec("rollback"); err != nil {
				return fmt.Errorf("%s: rollback: %v", where, err)
			}
			w.view, r.opsAdded = saved, nOps
			for j := nIssued; j < len(r.effective); j++ {
				r.effective[j] = false
			}
			r.o.Class("txn-rolled-back")
			if err := r.checkWriter(s.W, where+" (after rollback)"); err != nil {
				return err
			}
			return r.publish(w)
		}
		if err := w.conn.Exec("commit"); err != nil {
			return fmt.Errorf("%s: commit: %v", where, err)
		}
		r.o.Class("txn")
		if err := r.checkWriter(s.W, where); err != nil {
			return err
		}
		if err := r.publish(w); err != nil {
			return fmt.Errorf("%s: %v", where, err)
		}
		return nil
	case "vactxn":
		w := r.ws[s.W]
		before, err := w.conn.Dump(w.name)
		if err != nil {
			return fmt.Errorf("%s: scan before BEGIN: %v", where, err)
		}
		if err := w.conn.Exec("begin"); err != nil {
			return fmt.Errorf("%s: begin: %v", where, err)
		}
		if err := w.conn.Exec("update "+w.name+" set a=1 where k=?", 999999); err != nil {
			return fmt.Errorf("%s: UPDATE matching no row: %v", where, err)
		}
		verr := w.conn.Vacuum(w.name, farFuture)
		end := "commit"
		if s.Rollback {
			end = "rollback"
		}
		if err := w.conn.Exec(end); err != nil {
			return fmt.Errorf("%s: %s: %v", where, end, err)
		}
		if verr == nil {
			// it ran: what it committed is the writer's rows with the purgeable markers forgotten
			r.o.Class("vacuum-inside-transaction-ran")
			w.view.Vacuum(1 << 40)
			r.farVacuumed = true
			for _, n := range currentVersions(r.store, r.prefix) {
				if _, ok := r.pub[n]; !ok {
					r.pub[n] = w.view.Clone()
				}
			}
		} else {
			r.o.Class("vacuum-inside-transaction-refused")
		}
		after, err := w.conn.Dump(w.name)
		if err != nil {
			return fmt.Errorf("%s: after s3db_vacuum inside a transaction that changed nothing (result: %v) and %s the connection can no longer read the table: %v", where, verr, strings.ToUpper(end), err)
		}
		if !after.Equal(before) {
			return fmt.Errorf("%s: s3db_vacuum inside a transaction that changed nothing (result: %v), then %s: the visible rows changed.\nbefore:\n%safter:\n%s", where, verr, strings.ToUpper(end), before, after)
		}
		if err := r.checkWriter(s.W, where); err != nil {
			return err
		}
		if _, problems := r.reach(r.store); len(problems) > 0 {
			return fmt.Errorf("%s: after s3db_vacuum inside a transaction (result: %v) and %s: %v", where, verr, strings.ToUpper(end), problems[0])
		}
		return nil
	case "retry":
		if s.Ref >= len(r.issued) {
			return nil
		}
		st := r.issued[s.Ref]
		r.o.Class("retry")
		if err := r.execStmt(s.W, st, where, true, false); err != nil {
			return err
		}
		if err := r.checkWriter(s.W, where); err != nil {
			return err
		}
		if err := r.publish(r.ws[s.W]); err != nil {
			return fmt.Errorf("%s: %v", where, err)
		}
		return nil
	case "refresh":
		w := r.ws[s.W]
		setPerm(r.store, r.prefix, s.Perm)
		names := r.currentNames()
		err := w.conn.Refresh(w.name)
		setPerm(r.store, r.prefix, nil)
		if err != nil {
			return fmt.Errorf("%s: refresh: %v", where, err)
		}
		// a refresh re-opens the table from the bucket: the new state is the merge of the
		// current versions and nothing else (the handle's previous state is in there
		// because its last commit is current or an ancestor of a current version; after
		// a vacuum further down that lineage it legitimately is not)
		nv := MSet{}
		for _, n := range names {
			if p, ok := r.pub[n]; ok {
				nv.Union(p)
			} else {
				return fmt.Errorf("%s: harness bug: current version %s was never recorded", where, n)
			}
		}
		w.view = nv
		if len(names) >= 2 {
			r.o.Class("refresh-merging>=2")
		}
		if err := r.checkWriter(s.W, where); err != nil {
			return err
		}
		if err := r.publish(w); err != nil {
			return fmt.Errorf("%s: %v", where, err)
		}
		return nil
	case "partial":
		names := r.currentNames()
		var shown []string
		for j, n := range names {
			if s.Mask&(1<<uint(j%6)) != 0 {
				shown = append(shown, n)
			}
		}
		if len(shown) == 0 || len(shown) == len(names) && len(names) < 2 {
			return nil
		}
		showSet := map[string]bool{}
		for _, n := range shown {
			showSet[r.prefix+"root/current/"+n] = true
		}
		r.store.ListFilter = func(client, prefix string, keys []string) []string {
			if client != "verif://partial" || !strings.HasSuffix(prefix, "root/current/") {
				return keys
			}
			var out []string
			for _, k := range keys {
				if showSet[k] {
					out = append(out, k)
				}
			}
			return out
		}
		defer func() { r.store.ListFilter = nil }()
		setPerm(r.store, r.prefix, s.Perm)
		defer setPerm(r.store, r.prefix, nil)
		conn := newConn()
		defer conn.Close()
		sp := r.spec
		sp.Name, sp.Client = uniqName("p"), "partial"
		if err := conn.Create(sp); err != nil {
			return fmt.Errorf("%s: partial open of %v: %v", where, shown, err)
		}
		view := MSet{}
		for _, n := range shown {
			view.Union(r.pub[n])
		}
		got, err := conn.Dump(sp.Name)
		if err != nil {
			return fmt.Errorf("%s: partial open scan: %v", where, err)
		}
		if want := view.Rows(wideCols); !got.Equal(want) {
			return fmt.Errorf("%s: an opener shown versions %v sees rows that differ from the reference model.\ns3db:\n%smodel:\n%s", where, shown, got, want)
		}
		v, err := conn.Version(sp.Name)
		if err != nil {
			return fmt.Errorf("%s: %v", where, err)
		}
		for _, n := range parseVersionList(v) {
			r.pub[n] = view.Clone()
		}
		if len(shown) >= 2 {
			r.o.Class("partial-merge>=2")
		}
		return nil
	case "observe":
		return r.observeAll(s.Perm, where)
	case "vacuum":
		return r.vacuumStep(s, where)
	case "reread":
		return r.rereadSnaps(where, true)
	case "frontier":
		return r.frontierStep(where)
	case "changes", "changes-fault":
		return r.changesStep(s, where)
	case "ro-open", "ro-select", "ro-refresh", "ro-version", "ro-vacuum", "ro-changes", "ro-write":
		return r.roStep(s, where)
	}
	return fmt.Errorf("bad step %q", s.Op)
}

func runMW(c MWCase, o *Obs) error {
	r, err := newMWRun(c, o)
	if err != nil {
		return err
	}
	defer r.close()
	for i, s := range c.Steps {
		if s.W >= len(r.ws) {
			s.W = 0
		}
		ok := true
		for _, st := range s.Stmts {
			ok = ok && st.wellFormed()
		}
		if !ok || (s.Op == "stmt" && len(s.Stmts) != 1) {
			continue // malformed (minimiser artefact)
		}
		if err := r.step(i, s); err != nil {
			return err
		}
	}
	if err := r.observeAll([]int{2, 0, 1}, "end"); err != nil {
		return err
	}
	return r.quiescence("end")
}
