package checks

// Harness-owned view of a bucket: decode version objects and node objects,
// walk the tree of a version, collect reachable object names; plus a Go-level
// dump of a live table's tree (keys, row protobufs, timestamps).

import (
	"context"
	"encoding/json"
	"fmt"
	"sort"
	"strings"
	"time"

	"github.com/jrhy/s3db"
	crdtpub "github.com/jrhy/s3db/kv/crdt"
	v1proto "github.com/jrhy/s3db/proto/v1"
	"google.golang.org/protobuf/proto"

	"verif/fakes3"
)

const rowsDir = "s3db-rows/"

// tablePrefix is the object-key prefix of a table with the given s3_prefix.
func tablePrefix(s3prefix string) string {
	p := strings.Trim(s3prefix, "/")
	if p == "" {
		return rowsDir
	}
	return p + "/" + rowsDir
}

// VersionObj is the JSON version object as written by kv (kv_version 1).
type VersionObj struct {
	Link         *string    `json:"Link"`
	Size         uint64     `json:"Size"`
	Height       int        `json:"Height"`
	BranchFactor int        `json:"BranchFactor"`
	NodeFormat   string     `json:"NodeFormat"`
	Created      *time.Time `json:"cr"`
	Parents      []string   `json:"p"`
	MergeMode    int        `json:"mm"`
	KVVersion    int        `json:"kv_version"`
}

func loadVersion(st *fakes3.Store, prefix, name string) (*VersionObj, string, error) {
	for _, dir := range []string{"root/current/", "root/merged/"} {
		if b, ok := st.Get(prefix + dir + name); ok {
			var v VersionObj
			if err := json.Unmarshal(b, &v); err != nil {
				return nil, dir, fmt.Errorf("version %s%s does not decode: %v", dir, name, err)
			}
			return &v, dir, nil
		}
	}
	return nil, "", fmt.Errorf("version %s not found", name)
}

func valOfProto(v *v1proto.SQLiteValue) Val {
	if v == nil {
		return vNull()
	}
	switch v.Type {
	case v1proto.Type_INT:
		return vInt(v.Int)
	case v1proto.Type_REAL:
		return vReal(v.Real)
	case v1proto.Type_TEXT:
		return vText(v.Text)
	case v1proto.Type_BLOB:
		return vBlob(v.Blob)
	}
	return vNull()
}

// WalkEntry is one tree entry in scan order.
type WalkEntry struct {
	Key   Val
	Value *v1proto.CRDTValue
	Depth int
}

type Walk struct {
	Version  *VersionObj
	Nodes    map[string]int // reachable node names -> depth (0 = root)
	Entries  []WalkEntry
	Problems []string
	// shape statistics
	MaxDepth       int
	SparseInterior bool // some node has both an absent and a present child link
	InteriorNodes  int
}

func (w *Walk) problem(f string, a ...interface{}) {
	w.Problems = append(w.Problems, fmt.Sprintf(f, a...))
}

// walkVersion decodes everything reachable from a version.
func walkVersion(st *fakes3.Store, prefix, name string) (*Walk, error) {
	v, _, err := loadVersion(st, prefix, name)
	if err != nil {
		return nil, err
	}
	w := &Walk{Version: v, Nodes: map[string]int{}}
	if v.Link != nil {
		w.walkNode(st, prefix, *v.Link, 0)
	}
	if uint64(len(w.Entries)) != v.Size {
		w.problem("version %s records size %d but holds %d entries", name, v.Size, len(w.Entries))
	}
	for i := 1; i < len(w.Entries); i++ {
		if refCmp(w.Entries[i-1].Key, w.Entries[i].Key) >= 0 {
			w.problem("keys not strictly increasing in scan order: %v then %v", w.Entries[i-1].Key, w.Entries[i].Key)
		}
	}
	return w, nil
}

func (w *Walk) walkNode(st *fakes3.Store, prefix, link string, depth int) {
	if depth > 64 {
		w.problem("tree deeper than 64 at %s", link)
		return
	}
	b, ok := st.Get(prefix + "node/" + link)
	if !ok {
		w.problem("node %s is referenced but does not exist", link)
		return
	}
	if _, seen := w.Nodes[link]; !seen {
		w.Nodes[link] = depth
	}
	if depth > w.MaxDepth {
		w.MaxDepth = depth
	}
	var n v1proto.Node
	if err := proto.Unmarshal(b, &n); err != nil {
		w.problem("node %s does not decode: %v", link, err)
		return
	}
	if len(n.Key) != len(n.Value) {
		w.problem("node %s has %d keys and %d values", link, len(n.Key), len(n.Value))
		return
	}
	if len(n.Link) != 0 && len(n.Link) != len(n.Key)+1 {
		w.problem("node %s has %d keys and %d links", link, len(n.Key), len(n.Link))
		return
	}
	present, absent := 0, 0
	for _, l := range n.Link {
		if l == "" {
			absent++
		} else {
			present++
		}
	}
	if len(n.Key) == 0 && present == 0 && !(depth == 0 && w.Version.Size == 0) {
		// (an empty ROOT node is what a tree emptied by a purge or a merge of empty trees is
		// stored as: a version of an empty table)
		w.problem("node %s has neither entries nor children", link)
	}
	if present > 0 {
		w.InteriorNodes++
		if absent > 0 {
			w.SparseInterior = true
		}
	}
	for i := range n.Key {
		if len(n.Link) > 0 && n.Link[i] != "" {
			w.walkNode(st, prefix, n.Link[i], depth+1)
		}
		w.Entries = append(w.Entries, WalkEntry{Key: valOfProto(n.Key[i]), Value: n.Value[i], Depth: depth})
	}
	if len(n.Link) > 0 && n.Link[len(n.Key)] != "" {
		w.walkNode(st, prefix, n.Link[len(n.Key)], depth+1)
	}
}

// currentVersions / mergedVersions list version names present in the bucket.
func currentVersions(st *fakes3.Store, prefix string) []string {
	return trimAll(st.Keys(prefix+"root/current/"), prefix+"root/current/")
}

func mergedVersions(st *fakes3.Store, prefix string) []string {
	return trimAll(st.Keys(prefix+"root/merged/"), prefix+"root/merged/")
}

func nodeObjects(st *fakes3.Store, prefix string) []string {
	return trimAll(st.Keys(prefix+"node/"), prefix+"node/")
}

func trimAll(ks []string, p string) []string {
	out := make([]string, len(ks))
	for i, k := range ks {
		out[i] = strings.TrimPrefix(k, p)
	}
	return out
}

// ---------------------------------------------------------------------------
// Go-level dump of a live table

type GoCol struct {
	Cell string
	T    int64 // absolute update time, ns
}

type GoEntry struct {
	Key     string
	Mod     int64
	Tomb    int64
	Prev    string
	HasRow  bool
	Deleted bool
	DelT    int64 // absolute delete/insert status time, ns
	Cols    map[string]GoCol
}

func (e GoEntry) String() string {
	names := make([]string, 0, len(e.Cols))
	for k := range e.Cols {
		names = append(names, k)
	}
	sort.Strings(names)
	var sb strings.Builder
	fmt.Fprintf(&sb, "%s mod=%d tomb=%d del=%v@%d", e.Key, e.Mod, e.Tomb, e.Deleted, e.DelT)
	for _, n := range names {
		fmt.Fprintf(&sb, " %s=%s@%d", n, e.Cols[n].Cell, e.Cols[n].T)
	}
	return sb.String()
}

func goEntryOf(key *s3db.Key, v *crdtpub.Value) GoEntry {
	e := GoEntry{Key: valOfProto(key.SQLiteValue).Cell(), Mod: v.ModEpochNanos, Tomb: v.TombstoneSinceEpochNanos, Prev: v.PreviousRoot}
	row, _ := v.Value.(*v1proto.Row)
	if row != nil {
		e.HasRow = true
		e.Deleted = row.Deleted
		e.DelT = v.ModEpochNanos + int64(row.DeleteUpdateOffset.AsDuration())
		e.Cols = map[string]GoCol{}
		for name, cv := range row.ColumnValues {
			e.Cols[name] = GoCol{Cell: valOfProto(cv.Value).Cell(), T: v.ModEpochNanos + int64(cv.UpdateOffset.AsDuration())}
		}
	}
	return e
}

// goDump reads every entry (including delete markers and tombstones) of the
// tree currently held by the named table.
func goDump(table string) ([]GoEntry, error) {
	vt := s3db.GetTable(table)
	if vt == nil {
		return nil, fmt.Errorf("table %s not registered", table)
	}
	return goDumpKV(vt.Tree)
}

func goDumpKV(tree *s3db.KV) ([]GoEntry, error) {
	ctx := context.Background()
	if tree.Root.Size() == 0 {
		return nil, nil
	}
	cur, err := tree.Root.Cursor(ctx)
	if err != nil {
		return nil, err
	}
	if err := cur.Min(ctx); err != nil {
		return nil, err
	}
	var out []GoEntry
	for {
		k, v, ok := cur.Get()
		if !ok {
			break
		}
		out = append(out, goEntryOf(k.(*s3db.Key), v))
		if err := cur.Forward(ctx); err != nil {
			return nil, err
		}
	}
	return out, nil
}

func goDumpString(es []GoEntry, withPrev bool) string {
	var sb strings.Builder
	for _, e := range es {
		sb.WriteString(e.String())
		if withPrev {
			sb.WriteString(" prev=" + e.Prev)
		}
		sb.WriteString("\n")
	}
	return sb.String()
}
