package checks

// SQL session helpers: connections with the s3db extension auto-loaded, tables
// on fake buckets, canonical encoding of values and result sets.

import (
	"context"
	"database/sql"
	"encoding/hex"
	"errors"
	"fmt"
	"math"
	"sort"
	"strings"
	"sync/atomic"
	"time"

	"github.com/jrhy/s3db"
	"github.com/jrhy/s3db/kv"
	_ "github.com/jrhy/s3db/sqlite"
	_ "github.com/jrhy/s3db/sqlite/sqlite-autoload-extension"
	sqlite3 "github.com/mattn/go-sqlite3"

	"verif/fakes3"
)

func init() {
	s3db.VerifS3Factory = func(o s3db.S3Options) kv.S3Interface {
		st := fakes3.Lookup(o.Bucket)
		if st == nil {
			return nil
		}
		return st.Client(o.Endpoint)
	}
}

var uniq int64

func uniqName(p string) string { return fmt.Sprintf("%s%d", p, atomic.AddInt64(&uniq, 1)) }

// newBucket registers a fresh (or given) store under a unique bucket name.
func newBucket(st *fakes3.Store) (string, *fakes3.Store) {
	if st == nil {
		st = fakes3.New()
	}
	b := uniqName("vb")
	fakes3.Register(b, st)
	return b, st
}

// ---------------------------------------------------------------------------
// values

// Val is a JSON-serialisable SQLite value. K: n(ull) i(nt) r(eal) t(ext) b(lob).
type Val struct {
	K string `json:"k"`
	I int64  `json:"i,omitempty"`
	F uint64 `json:"f,omitempty"` // IEEE bits of a real
	X string `json:"x,omitempty"` // hex of text/blob bytes
}

func vNull() Val            { return Val{K: "n"} }
func vInt(i int64) Val      { return Val{K: "i", I: i} }
func vReal(f float64) Val   { return Val{K: "r", F: math.Float64bits(f)} }
func vText(s string) Val    { return Val{K: "t", X: hex.EncodeToString([]byte(s))} }
func vBlob(b []byte) Val    { return Val{K: "b", X: hex.EncodeToString(b)} }
func (v Val) Real() float64 { return math.Float64frombits(v.F) }
func (v Val) Bytes() []byte { b, _ := hex.DecodeString(v.X); return b }

// Arg is the value as bound to a statement parameter.
func (v Val) Arg() interface{} {
	switch v.K {
	case "i":
		return v.I
	case "r":
		return v.Real()
	case "t":
		return string(v.Bytes())
	case "b":
		b := v.Bytes()
		if b == nil {
			b = []byte{}
		}
		return b
	}
	return nil
}

// Cell is the canonical form of a value read back: storage class + exact bits.
func (v Val) Cell() string {
	switch v.K {
	case "i":
		return fmt.Sprintf("I:%d", v.I)
	case "r":
		return fmt.Sprintf("R:%016x", v.F)
	case "t":
		return "T:" + v.X
	case "b":
		return "B:" + v.X
	}
	return "N"
}

func (v Val) String() string {
	switch v.K {
	case "i":
		return fmt.Sprintf("%d", v.I)
	case "r":
		return fmt.Sprintf("%g", v.Real())
	case "t":
		return fmt.Sprintf("%q", string(v.Bytes()))
	case "b":
		return "x'" + v.X + "'"
	}
	return "NULL"
}

func cellOf(i interface{}) string {
	switch x := i.(type) {
	case nil:
		return "N"
	case int64:
		return fmt.Sprintf("I:%d", x)
	case float64:
		return fmt.Sprintf("R:%016x", math.Float64bits(x))
	case string:
		return "T:" + hex.EncodeToString([]byte(x))
	case []byte:
		return "B:" + hex.EncodeToString(x)
	case time.Time:
		return "TIME:" + x.String()
	case bool:
		return fmt.Sprintf("BOOL:%v", x)
	}
	return fmt.Sprintf("?%T:%v", i, i)
}

// Rows is a result set in canonical form.
type Rows [][]string

func (r Rows) String() string {
	var sb strings.Builder
	for _, row := range r {
		sb.WriteString(strings.Join(row, "|"))
		sb.WriteString("\n")
	}
	return sb.String()
}

func (r Rows) Sorted() Rows {
	out := append(Rows(nil), r...)
	sort.Slice(out, func(i, j int) bool {
		return strings.Join(out[i], "|") < strings.Join(out[j], "|")
	})
	return out
}

func (r Rows) Equal(o Rows) bool { return r.String() == o.String() }

// ---------------------------------------------------------------------------
// connections

type Conn struct {
	db *sql.DB
}

func newConn() *Conn {
	db, err := sql.Open("sqlite3", ":memory:")
	if err != nil {
		panic(err)
	}
	db.SetMaxOpenConns(1)
	db.SetMaxIdleConns(1)
	db.SetConnMaxLifetime(0)
	return &Conn{db: db}
}

func (c *Conn) Close() {
	if c != nil && c.db != nil {
		c.db.Close()
		c.db = nil
	}
}

func (c *Conn) Exec(q string, args ...interface{}) error {
	_, err := c.db.Exec(q, args...)
	return err
}

// ExecN returns the number of rows the statement reports as changed.
func (c *Conn) ExecN(q string, args ...interface{}) (int64, error) {
	res, err := c.db.Exec(q, args...)
	if err != nil {
		return 0, err
	}
	n, _ := res.RowsAffected()
	return n, nil
}

func (c *Conn) Query(q string, args ...interface{}) (Rows, error) {
	rows, err := c.db.QueryContext(context.Background(), q, args...)
	if err != nil {
		return nil, err
	}
	defer rows.Close()
	cols, err := rows.Columns()
	if err != nil {
		return nil, err
	}
	out := Rows{}
	for rows.Next() {
		vals := make([]interface{}, len(cols))
		ptrs := make([]interface{}, len(cols))
		for i := range vals {
			ptrs[i] = &vals[i]
		}
		if err := rows.Scan(ptrs...); err != nil {
			return nil, err
		}
		row := make([]string, len(cols))
		for i := range vals {
			row[i] = cellOf(vals[i])
		}
		out = append(out, row)
	}
	if err := rows.Err(); err != nil {
		return nil, err
	}
	return out, nil
}

// Query1 returns the single text/any cell of a one-row one-column query.
func (c *Conn) Query1(q string, args ...interface{}) (interface{}, error) {
	var v interface{}
	err := c.db.QueryRow(q, args...).Scan(&v)
	return v, err
}

// errClass maps an error to the outcome classes the properties talk about.
func errClass(err error) string {
	if err == nil {
		return "ok"
	}
	var se sqlite3.Error
	if errors.As(err, &se) {
		switch se.ExtendedCode {
		case sqlite3.ErrConstraintPrimaryKey, sqlite3.ErrConstraintUnique:
			return "constraint-key"
		case sqlite3.ErrConstraintNotNull:
			return "constraint-notnull"
		}
		if se.Code == sqlite3.ErrConstraint {
			return "constraint-other"
		}
	}
	return "error"
}

// ---------------------------------------------------------------------------
// tables

// TableSpec describes one s3db virtual table.
type TableSpec struct {
	Name     string
	Columns  string // the columns='...' text
	Bucket   string
	Client   string // becomes s3_endpoint='verif://<client>'
	Prefix   string
	EPN      int // entries_per_node, 0 = default
	Cache    int // node_cache_entries, 0 = default
	ReadOnly bool
}

func (ts TableSpec) SQL() string {
	var sb strings.Builder
	fmt.Fprintf(&sb, "create virtual table %s using s3db (columns='%s'", ts.Name, strings.ReplaceAll(ts.Columns, "'", "''"))
	if ts.Bucket != "" {
		fmt.Fprintf(&sb, ", s3_bucket='%s', s3_endpoint='verif://%s'", ts.Bucket, ts.Client)
	}
	if ts.Prefix != "" {
		fmt.Fprintf(&sb, ", s3_prefix='%s'", ts.Prefix)
	}
	if ts.EPN != 0 {
		fmt.Fprintf(&sb, ", entries_per_node=%d", ts.EPN)
	}
	if ts.Cache != 0 {
		fmt.Fprintf(&sb, ", node_cache_entries=%d", ts.Cache)
	}
	if ts.ReadOnly {
		sb.WriteString(", readonly")
	}
	sb.WriteString(")")
	return sb.String()
}

func (c *Conn) Create(ts TableSpec) error { return c.Exec(ts.SQL()) }

func (c *Conn) Drop(name string) error { return c.Exec("drop table " + name) }

func timeStr(sec int64) string {
	return time.Unix(sec, 0).UTC().Format("2006-01-02 15:04:05")
}

// baseTime is the origin of all generated write times (2020-01-01).
const baseTime = int64(1577836800)

func (c *Conn) SetWriteTime(sec int64) error {
	return c.Exec("update s3db_conn set write_time=?", timeStr(sec))
}

func (c *Conn) Refresh(table string) error {
	_, err := c.Query("select s3db_refresh(?)", table)
	return err
}

func (c *Conn) Version(table string) (string, error) {
	v, err := c.Query1("select s3db_version(?)", table)
	if err != nil {
		return "", err
	}
	switch x := v.(type) {
	case string:
		return x, nil
	case []byte:
		return string(x), nil
	}
	return "", fmt.Errorf("s3db_version returned %T", v)
}

// Vacuum runs s3db_vacuum; a failure reported through the vacuum_error column
// is returned as an error too.
func (c *Conn) Vacuum(table string, beforeSec int64) error {
	rows, err := c.Query("select vacuum_error from s3db_vacuum(?, ?)", table, timeStr(beforeSec))
	if err != nil {
		return err
	}
	if len(rows) != 1 {
		return fmt.Errorf("s3db_vacuum returned %d rows", len(rows))
	}
	if rows[0][0] != "N" {
		b, _ := hex.DecodeString(strings.TrimPrefix(rows[0][0], "T:"))
		return fmt.Errorf("vacuum_error: %s", string(b))
	}
	return nil
}

// Dump reads the whole table with a plain ascending scan, sorted canonically.
func (c *Conn) Dump(table string) (Rows, error) {
	r, err := c.Query("select * from " + table)
	if err != nil {
		return nil, err
	}
	return r.Sorted(), nil
}

func timeUnix(y, mo, d, h, mi, s int) int64 {
	return time.Date(y, time.Month(mo), d, h, mi, s, 0, time.UTC).Unix()
}

func nowNanos() int64 { return time.Now().UnixNano() }
