package checks

// C01 — multi-writer merge converges regardless of merge order, grouping and repetition.
// C02 — conflicts resolve as documented (per-column last-write-wins, sticky deletes).
// C15 (part) — retries and rewound write times.
// All three drive the multi-writer runner of h_mw_test.go with different generator weights.

import (
	"testing"

	"pgregory.net/rapid"
)

func init() { register("TestC01_Converge", runMW) }

func TestC01_Converge(t *testing.T) {
	st := newStats(t, "C01", "TestC01_Converge", "histories of 2-40 steps by 1-4 writers on one prefix (autocommit statements, transactions of 1-3 statements, refreshes, byte-identical retries on any writer, partial opens that commit merges of a subset of the frontier), unique write times in arbitrary order; at generated checkpoints and at the end 4-6 readers on copies of the bucket (read-only and read-write, four merge orders through the permutation hook, plus copies in which every retired version is listed as current again) must return identical rows, equal to the operation-based reference model; then three read-write opens in a row must leave one current version and write nothing; non-trivial = a checkpoint with >=3 unmerged versions and a key written by >=2 writers")
	g := mwGenCfg{maxWriters: 4, keyChoices: []int{2, 3, 5, 8}, maxSteps: 40,
		wStmt: 10, wTxn: 3, wRefresh: 2, wRetry: 1, wPartial: 2, wObserve: 1, wIns: 4, wUpd: 4, wDel: 2, multiRow: true, cacheAndRollback: true}
	checkRapid(t, st, func(rt *rapid.T) MWCase { return genMWCase(rt, g) }, runMW)
}

func init() { register("TestC02_Model", runMW) }

func TestC02_Model(t *testing.T) {
	st := newStats(t, "C02", "TestC02_Model", "the multi-writer runner with few keys (1-3) and long per-key sequences (insert, partial updates, delete, re-insert with column lists) at arbitrary, non-monotone unique write times over 1-3 writers with refreshes at generated points; after every statement the issuing writer's outcome class and rows, and at checkpoints all merged observers, are compared with the operation-based reference model (status by latest INSERT/DELETE, each column by latest assignment); non-trivial as for C01")
	g := mwGenCfg{maxWriters: 3, keyChoices: []int{1, 2, 3}, maxSteps: 40,
		wStmt: 14, wTxn: 3, wRefresh: 3, wRetry: 0, wPartial: 1, wObserve: 1, wIns: 3, wUpd: 5, wDel: 3, multiRow: false, cacheAndRollback: true}
	checkRapid(t, st, func(rt *rapid.T) MWCase { return genMWCase(rt, g) }, runMW)
}
