package checks

// C16 — every committed version is complete and well-formed on its own.

import (
	"fmt"
	"sort"
	"strings"
	"testing"
	"time"

	"github.com/jrhy/mast"
	"github.com/jrhy/s3db"
	crdtpub "github.com/jrhy/s3db/kv/crdt"
	v1proto "github.com/jrhy/s3db/proto/v1"
	"google.golang.org/protobuf/proto"
	"google.golang.org/protobuf/types/known/durationpb"
	"pgregory.net/rapid"

	"verif/fakes3"
)

// ---------------------------------------------------------------------------
// (iii) codec round trip on generated nodes

type codecEntry struct {
	Key     Val              `json:"key"`
	Mod     int64            `json:"mod"`
	Tomb    int64            `json:"tomb,omitempty"`
	Prev    string           `json:"prev,omitempty"`
	NoRow   bool             `json:"norow,omitempty"`
	Deleted bool             `json:"deleted,omitempty"`
	DelOff  int64            `json:"deloff,omitempty"`
	Cols    map[string]Val   `json:"cols,omitempty"`
	ColOff  map[string]int64 `json:"coloff,omitempty"`
}

type CodecCase struct {
	Entries []codecEntry `json:"entries"`
	Links   []string     `json:"links"` // nil: no link vector; else len(entries)+1 with "" = absent
}

func genCodecCase(t *rapid.T) CodecCase {
	n := rapid.IntRange(1, 6).Draw(t, "n")
	var c CodecCase
	for i := 0; i < n; i++ {
		e := codecEntry{Key: genKeyVal().Draw(t, "key"), Mod: rapid.Int64Range(0, 1<<62).Draw(t, "mod")}
		switch rapid.IntRange(0, 5).Draw(t, "shape") {
		case 0:
			e.Tomb = rapid.Int64Range(1, 1<<62).Draw(t, "tomb")
			e.NoRow = true
		case 1:
			e.Deleted = true
			e.DelOff = rapid.Int64Range(-1e12, 1e12).Draw(t, "deloff")
		default:
			e.DelOff = rapid.SampledFrom([]int64{0, 0, -5e9, 17, -1}).Draw(t, "deloff")
			nc := rapid.IntRange(0, 3).Draw(t, "ncols")
			e.Cols = map[string]Val{}
			e.ColOff = map[string]int64{}
			for j := 0; j < nc; j++ {
				name := rapid.SampledFrom([]string{"a", "b", "c", "col with space", "é"}).Draw(t, "cname")
				e.Cols[name] = genAnyVal().Draw(t, "cval")
				e.ColOff[name] = rapid.SampledFrom([]int64{0, 0, -3e9, 1, -1e15}).Draw(t, "coff")
			}
		}
		if rapid.IntRange(0, 2).Draw(t, "hasprev") == 0 {
			e.Prev = rapid.SampledFrom([]string{"1Xaf3k_ZiOd4r6wl3HxsEio", "x", "prev/with/slash"}).Draw(t, "prev")
		}
		c.Entries = append(c.Entries, e)
	}
	switch rapid.IntRange(0, 3).Draw(t, "linkshape") {
	case 0:
		c.Links = nil
	default:
		c.Links = make([]string, n+1)
		some := false
		for i := range c.Links {
			if rapid.Bool().Draw(t, "present") {
				c.Links[i] = rapid.SampledFrom([]string{"JGv-KjFopqZ5jPLUrRdmth_XssRI31QvbaMhT4KX7aA", "L", "f2T5XOzMjeiONI_0IRqgNPFbrMhckW8RTKv46APZ-sA"}).Draw(t, "link")
				some = true
			}
		}
		if !some {
			// mast never encodes an all-absent link vector (it drops the vector)
			c.Links[rapid.IntRange(0, n).Draw(t, "forced")] = "K"
		}
	}
	return c
}

func protoOfVal(v Val) *v1proto.SQLiteValue {
	return s3db.NewKey(v.Arg()).SQLiteValue
}

func buildNode(c CodecCase) mast.Node {
	n := mast.Node{}
	for _, e := range c.Entries {
		n.Key = append(n.Key, s3db.NewKey(e.Key.Arg()))
		cv := crdtpub.Value{ModEpochNanos: e.Mod, TombstoneSinceEpochNanos: e.Tomb, PreviousRoot: e.Prev}
		if !e.NoRow {
			row := &v1proto.Row{Deleted: e.Deleted}
			if e.DelOff != 0 {
				row.DeleteUpdateOffset = durationpb.New(time.Duration(e.DelOff))
			}
			if e.Cols != nil {
				row.ColumnValues = map[string]*v1proto.ColumnValue{}
				for name, v := range e.Cols {
					c := &v1proto.ColumnValue{Value: protoOfVal(v)}
					if off := e.ColOff[name]; off != 0 {
						c.UpdateOffset = durationpb.New(time.Duration(off))
					}
					row.ColumnValues[name] = c
				}
			}
			cv.Value = row
		}
		n.Value = append(n.Value, cv)
	}
	if c.Links != nil {
		n.Link = make([]interface{}, len(c.Links))
		for i, l := range c.Links {
			if l != "" {
				n.Link[i] = l
			}
		}
	}
	return n
}

func rowOf(v interface{}) *v1proto.Row {
	r, _ := v.(*v1proto.Row)
	return r
}

func compareNodes(want, got mast.Node) error {
	if len(want.Key) != len(got.Key) || len(want.Value) != len(got.Value) {
		return fmt.Errorf("decoded %d keys/%d values, encoded %d/%d", len(got.Key), len(got.Value), len(want.Key), len(want.Value))
	}
	for i := range want.Key {
		wk, gk := want.Key[i].(*s3db.Key), got.Key[i].(*s3db.Key)
		if valOfProto(wk.SQLiteValue).Cell() != valOfProto(gk.SQLiteValue).Cell() {
			return fmt.Errorf("key %d: encoded %v decoded %v", i, valOfProto(wk.SQLiteValue), valOfProto(gk.SQLiteValue))
		}
		wv, gv := want.Value[i].(crdtpub.Value), got.Value[i].(crdtpub.Value)
		if wv.ModEpochNanos != gv.ModEpochNanos || wv.TombstoneSinceEpochNanos != gv.TombstoneSinceEpochNanos || wv.PreviousRoot != gv.PreviousRoot {
			return fmt.Errorf("value %d metadata: encoded (%d,%d,%q) decoded (%d,%d,%q)", i,
				wv.ModEpochNanos, wv.TombstoneSinceEpochNanos, wv.PreviousRoot, gv.ModEpochNanos, gv.TombstoneSinceEpochNanos, gv.PreviousRoot)
		}
		wr, gr := rowOf(wv.Value), rowOf(gv.Value)
		if (wr == nil) != (gr == nil) {
			return fmt.Errorf("value %d: row presence differs (encoded nil=%v decoded nil=%v)", i, wr == nil, gr == nil)
		}
		if wr != nil && !proto.Equal(wr, gr) {
			return fmt.Errorf("value %d: row differs: encoded %v decoded %v", i, wr, gr)
		}
	}
	// links: a node without links may come back with an empty vector or none;
	// otherwise position by position, absent stays absent.
	wantHas := false
	for _, l := range want.Link {
		if l != nil {
			wantHas = true
		}
	}
	if !wantHas {
		for i, l := range got.Link {
			if l != nil {
				return fmt.Errorf("link %d decoded as %#v but no link was encoded", i, l)
			}
		}
		return nil
	}
	if len(got.Link) != len(want.Link) {
		return fmt.Errorf("decoded %d links, encoded %d", len(got.Link), len(want.Link))
	}
	for i := range want.Link {
		if want.Link[i] == nil {
			if got.Link[i] != nil {
				return fmt.Errorf("link %d was absent when encoded but decodes as %#v (an absent child became a present one)", i, got.Link[i])
			}
			continue
		}
		if gs, ok := got.Link[i].(string); !ok || gs != want.Link[i].(string) {
			return fmt.Errorf("link %d: encoded %q decoded %#v", i, want.Link[i], got.Link[i])
		}
	}
	return nil
}

func runCodec(c CodecCase, o *Obs) error {
	n := buildNode(c)
	b, err := s3db.VerifMarshalNode(n)
	if err != nil {
		return fmt.Errorf("marshal: %v", err)
	}
	var out mast.Node
	if err := s3db.VerifUnmarshalNode(b, &out); err != nil {
		return fmt.Errorf("unmarshal: %v", err)
	}
	absent, present := 0, 0
	for _, l := range c.Links {
		if l == "" {
			absent++
		} else {
			present++
		}
	}
	if absent > 0 && present > 0 {
		o.NonTrivial = true
		o.Class("mixed-links")
	}
	if c.Links == nil {
		o.Class("no-links")
	}
	if err := compareNodes(n, out); err != nil {
		return err
	}
	// decoding is stable: encode(decode(bytes)) decodes to the same node again
	// (byte equality is not demanded: protobuf map fields have no fixed order)
	b3, err := s3db.VerifMarshalNode(out)
	if err != nil {
		return fmt.Errorf("re-marshal: %v", err)
	}
	var out2 mast.Node
	if err := s3db.VerifUnmarshalNode(b3, &out2); err != nil {
		return fmt.Errorf("unmarshal of re-encoded node: %v", err)
	}
	if err := compareNodes(n, out2); err != nil {
		return fmt.Errorf("second round trip: %v", err)
	}
	return nil
}

func init() { register("TestC16_Codec", runCodec) }

func TestC16_Codec(t *testing.T) {
	st := newStats(t, "C16", "TestC16_Codec", "generated tree nodes (1-6 entries, all key classes, live/deleted/tombstoned values, link vectors with absent entries at any position) through the node codec and back; non-trivial = link vector with both absent and present entries")
	checkRapid(t, st, genCodecCase, runCodec)
}

// ---------------------------------------------------------------------------
// history level

type HStep struct {
	Op    string `json:"op"` // txn noop-upd noop-txn refresh reopen
	Stmts []Stmt `json:"stmts,omitempty"`
	Auto  bool   `json:"auto,omitempty"` // single statement in autocommit mode
	// FailAt > 0: the explicit transaction's COMMIT runs with every mutating request from the
	// FailAt-th on failing (a storage fault during the upload); the history then goes on
	FailAt int `json:"fail_at,omitempty"`
	// FailKind (faulty-vacuum): "" = every mutating request from the FailAt-th on fails;
	// (txn) "retire" = only the requests that retire the parent version fail;
	// "node-deletes" = every DELETE of a node object fails; "version-deletes" = every DELETE
	// of a version object fails (the outcome of these two does not depend on the order in
	// which the vacuum issues its deletions)
	FailKind string `json:"fail_kind,omitempty"`
}

type C16Case struct {
	EPN    int     `json:"epn"`
	Cache  int     `json:"cache"`
	NKeys  int     `json:"nkeys"`
	Prefix string  `json:"prefix"`
	Steps  []HStep `json:"steps"`
	// NoSteer: do not steer away from known findings (witness files only)
	NoSteer bool `json:"no_steer,omitempty"`
}

var wideCols = []string{"a", "b", "c"}

// mixedKeys: a key domain with all four storage classes, distinct under SQLite equality.
func mixedKeys(n int) []Val {
	base := []Val{vInt(1), vInt(2), vInt(3), vText("a"), vReal(2.5), vBlob([]byte{1}), vInt(-7), vText("b"), vInt(1 << 40), vReal(-0.5), vText("aa"), vBlob([]byte{})}
	ks := append([]Val(nil), base...)
	for i := int64(4); len(ks) < n; i++ {
		ks = append(ks, vInt(i*3))
	}
	return ks[:n]
}

func genC16Case(t *rapid.T) C16Case {
	c := C16Case{
		EPN:    rapid.SampledFrom([]int{2, 2, 3, 3, 4, 4, 8, 64, 4096}).Draw(t, "epn"),
		Cache:  rapid.SampledFrom([]int{0, 0, 4, 1000}).Draw(t, "cache"),
		NKeys:  rapid.SampledFrom([]int{6, 12, 24, 48}).Draw(t, "nkeys"),
		Prefix: rapid.SampledFrom([]string{"", "p", "/deep/er/"}).Draw(t, "prefix"),
	}
	keys := mixedKeys(c.NKeys)
	cfg := stmtGenCfg{keys: keys, cols: wideCols, vals: smallVals(), multiRow: true, wIns: 5, wUpd: 3, wDel: 2}
	// optional bulk pre-fill so that deep trees are common
	if rapid.Bool().Draw(t, "prefill") {
		n := rapid.IntRange(3, c.NKeys).Draw(t, "nprefill")
		s := Stmt{Kind: "ins", Cols: []string{"a"}}
		for i := 0; i < n; i++ {
			s.Keys = append(s.Keys, keys[i])
			s.Vals = append(s.Vals, []Val{vInt(int64(i))})
		}
		c.Steps = append(c.Steps, HStep{Op: "txn", Stmts: []Stmt{s}, Auto: true})
	}
	n := rapid.IntRange(1, 25).Draw(t, "nsteps")
	faulted, vacuumed := false, false
	for i := 0; i < n; i++ {
		switch rapid.IntRange(0, 11).Draw(t, "op") {
		case 0:
			c.Steps = append(c.Steps, HStep{Op: "noop-upd"})
		case 1:
			c.Steps = append(c.Steps, HStep{Op: "noop-txn"})
		case 2:
			c.Steps = append(c.Steps, HStep{Op: "refresh"})
		case 3:
			if !vacuumed && rapid.IntRange(0, 2).Draw(t, "fv") == 0 {
				// a vacuum whose own commit runs under a storage fault; the history goes on
				c.Steps = append(c.Steps, HStep{Op: "faulty-vacuum", FailAt: rapid.IntRange(1, 6).Draw(t, "vfail"),
					FailKind: rapid.SampledFrom([]string{"", "", "node-deletes", "version-deletes", "merged-deletes"}).Draw(t, "vkind")})
				vacuumed = true
			} else {
				c.Steps = append(c.Steps, HStep{Op: "reopen"})
			}
		default:
			k := rapid.IntRange(1, 4).Draw(t, "nstmts")
			st := HStep{Op: "txn", Auto: k == 1 && rapid.Bool().Draw(t, "auto")}
			if !st.Auto && !faulted && rapid.IntRange(0, 5).Draw(t, "faulty") == 0 {
				st.FailAt = rapid.IntRange(1, 8).Draw(t, "failat")
				if rapid.IntRange(0, 2).Draw(t, "retirefault") == 0 {
					// only the retirement of the parent version fails: the commit is acknowledged
					// and the parent stays listed as current
					st.FailKind = "retire"
				}
				faulted = true // one per history (a second rollback on the same handle is K4 territory)
			}
			for j := 0; j < k; j++ {
				st.Stmts = append(st.Stmts, genStmt(t, cfg, "s"))
			}
			c.Steps = append(c.Steps, st)
		}
	}
	// write times: strictly increasing over the history (single writer)
	tm := int64(0)
	for i := range c.Steps {
		for j := range c.Steps[i].Stmts {
			tm += 10
			c.Steps[i].Stmts[j].T = tm
		}
	}
	return c
}

func putsIn(log []fakes3.Req) []string {
	var out []string
	for _, r := range log {
		if r.Op == "PUT" || r.Op == "DELETE" {
			out = append(out, r.String())
		}
	}
	return out
}

func runC16(c C16Case, o *Obs) error {
	bucket, store := newBucket(nil)
	defer fakes3.Unregister(bucket)
	conn := newConn()
	defer conn.Close()
	tn := uniqName("t")
	spec := TableSpec{Name: tn, Columns: "k primary key, a, b, c", Bucket: bucket, Client: "w", Prefix: c.Prefix, EPN: c.EPN, Cache: c16Cache(c, o)}
	if err := conn.Create(spec); err != nil {
		return fmt.Errorf("create: %v", err)
	}
	prefix := tablePrefix(c.Prefix)
	keys := mixedKeys(c.NKeys)
	view := MSet{}
	dirtyHandle := false // a statement or commit failed on this handle since it was (re)opened

	verify := func(where string) error {
		if rw := store.Rewrites(); len(rw) > 0 {
			return fmt.Errorf("%s: object name(s) re-written with different bytes: %v", where, rw)
		}
		ver, err := conn.Version(tn)
		if err != nil {
			return fmt.Errorf("%s: s3db_version: %v", where, err)
		}
		names := parseVersionList(ver)
		if len(names) == 0 && len(store.Keys(prefix+"root/")) == 0 {
			// nothing was ever committed: there is no version to examine
			if rows, err := conn.Dump(tn); err != nil || len(rows) != 0 {
				return fmt.Errorf("%s: no version exists but the table shows %v (err %v)", where, rows, err)
			}
			return nil
		}
		if len(names) != 1 {
			return fmt.Errorf("%s: single writer reports versions %s", where, ver)
		}
		w, err := walkVersion(store, prefix, names[0])
		if err != nil {
			return fmt.Errorf("%s: %v", where, err)
		}
		if len(w.Problems) > 0 {
			return fmt.Errorf("%s: version %s is not well-formed: %s", where, names[0], strings.Join(w.Problems, "; "))
		}
		// every other version still listed as current (a parent whose retirement was cut short
		// by a fault) must be complete too: openers list and merge it
		for _, other := range currentVersions(store, prefix) {
			if other == names[0] {
				continue
			}
			ow, err := walkVersion(store, prefix, other)
			if err != nil {
				return fmt.Errorf("%s: version %s, listed as current: %v", where, other, err)
			}
			if len(ow.Problems) > 0 {
				return fmt.Errorf("%s: version %s is listed as current but is not complete: %s", where, other, strings.Join(ow.Problems, "; "))
			}
			o.Class("other-current-version-walked")
		}
		if w.MaxDepth >= 1 {
			o.Class("commit-height>=1")
			if w.MaxDepth >= 2 {
				o.Class("commit-height>=2")
			}
			if w.SparseInterior {
				o.NonTrivial = true
				o.Class("commit-sparse-interior")
			}
		}
		// the writer's own view
		wantRows, err := conn.Dump(tn)
		if err != nil {
			return fmt.Errorf("%s: writer scan: %v", where, err)
		}
		if m := view.Rows(wideCols); !m.Equal(wantRows) {
			return fmt.Errorf("%s: writer's rows differ from the model.\nwriter:\n%smodel:\n%s", where, wantRows, m)
		}
		wantGo, err := goDump(tn)
		if err != nil {
			return fmt.Errorf("%s: writer tree dump: %v", where, err)
		}
		if len(wantGo) != len(w.Entries) && len(currentVersions(store, prefix)) <= 1 {
			return fmt.Errorf("%s: writer holds %d entries, stored version %d", where, len(wantGo), len(w.Entries))
		}
		// a fresh process: new connection, empty cache, read-only
		fc := newConn()
		defer fc.Close()
		fn := uniqName("f")
		fs := spec
		fs.Name, fs.Client, fs.ReadOnly, fs.Cache = fn, "fresh", true, 0
		if err := fc.Create(fs); err != nil {
			return fmt.Errorf("%s: a fresh read-only open of the committed table fails: %v", where, err)
		}
		gotRows, err := fc.Dump(fn)
		if err != nil {
			return fmt.Errorf("%s: fresh open cannot scan the committed table: %v", where, err)
		}
		if !gotRows.Equal(wantRows) {
			return fmt.Errorf("%s: fresh open sees different rows.\nwriter:\n%sfresh:\n%s", where, wantRows, gotRows)
		}
		gotGo, err := goDump(fn)
		if err != nil {
			return fmt.Errorf("%s: fresh tree dump: %v", where, err)
		}
		// (when a fault cut short the retirement of a version's parents, a fresh reader merges
		// the ancestor again: delete markers a vacuum purged come back and previous-version
		// names differ; the rows, compared above, must still be equal)
		if a, b := goDumpString(wantGo, true), goDumpString(gotGo, true); a != b && len(currentVersions(store, prefix)) <= 1 {
			return fmt.Errorf("%s: the stored tree differs from the tree the writer has in memory.\nwriter:\n%sfresh:\n%s", where, a, b)
		}
		// point lookups of every key of the domain (present and absent)
		for _, k := range keys {
			a, err1 := conn.Query("select * from "+tn+" where k=?", k.Arg())
			b, err2 := fc.Query("select * from "+fn+" where k=?", k.Arg())
			if err1 != nil || err2 != nil {
				return fmt.Errorf("%s: point lookup of %v: writer err=%v fresh err=%v", where, k, err1, err2)
			}
			if !a.Equal(b) {
				return fmt.Errorf("%s: point lookup of %v differs: writer %v fresh %v", where, k, a, b)
			}
		}
		return nil
	}

	// a commit whose retirement of its parents was cut short by a fault leaves two current
	// versions; the next open legitimately merges and commits them
	frontierBefore := 0
	noPuts := func(what string, from int) error {
		if frontierBefore > 1 && (strings.HasPrefix(what, "refreshing") || strings.HasPrefix(what, "re-opening")) {
			return nil
		}
		if p := putsIn(store.LogSince(from)); len(p) > 0 {
			return fmt.Errorf("%s changed nothing but wrote to the bucket: %v", what, p)
		}
		return nil
	}

	for i, step := range c.Steps {
		where := fmt.Sprintf("step %d (%s)", i, step.Op)
		from := store.LogLen()
		frontierBefore = len(currentVersions(store, prefix))
		verBefore, _ := conn.Version(tn)
		switch step.Op {
		case "txn":
			if step.FailAt > 0 && dirtyHandle && c.EPN <= c.NKeys && !c.NoSteer {
				// K4: once the handle has been through a rollback (a refused statement is
				// enough) its next BEGIN snapshot shares tree nodes that the dependency
				// mutates in place; a second rollback would then leave rows behind. Take a
				// fresh handle before the transaction whose commit is going to fail.
				o.Exclude("K4-refresh-before-second-rollback-on-multi-node-tree")
				if err := conn.Refresh(tn); err != nil {
					return fmt.Errorf("%s: refresh: %v", where, err)
				}
				dirtyHandle = false
			}
			if !step.Auto {
				if err := conn.Exec("begin"); err != nil {
					return fmt.Errorf("%s: begin: %v", where, err)
				}
			}
			failed := false
			preTxn := view.Clone()
			for _, s := range step.Stmts {
				if !s.wellFormed() {
					continue // minimiser artefact
				}
				outcome, added, _ := view.Exec(s, wideCols)
				if outcome != "ok" && len(s.Keys) > 1 {
					// a multi-row INSERT that fails after its first row leaves rows behind
					// (known findings K3/K4, decided under C05/C06): steer away, count it.
					o.Exclude("K3K4-partial-multirow-insert")
					continue
				}
				for _, op := range added {
					view.Add(op)
				}
				if err := conn.SetWriteTime(baseTime + s.T); err != nil {
					return fmt.Errorf("%s: set write_time: %v", where, err)
				}
				q, args := s.SQL(tn, "k")
				err := conn.Exec(q, args...)
				if cls := errClass(err); cls == "error" {
					return fmt.Errorf("%s: %s: %v", where, s, err)
				} else if cls != "ok" {
					failed = true
					dirtyHandle = true
					o.Class("stmt-constraint")
				}
				if cls := errClass(err); cls != outcome {
					return fmt.Errorf("%s: %s: outcome %s (%v), model expects %s", where, s, cls, err, outcome)
				}
			}
			if !step.Auto && step.FailAt > 0 {
				count := 0
				store.Intercept = func(q *fakes3.Req) error {
					if q.Client != "verif://w" || !q.Mutating() {
						return nil
					}
					if step.FailKind == "retire" {
						if (q.Op == "PUT" && strings.Contains(q.Key, "/root/merged/")) || (q.Op == "DELETE" && strings.Contains(q.Key, "/root/current/")) {
							return fakes3.ErrInjected
						}
						return nil
					}
					count++
					if count >= step.FailAt {
						return fakes3.ErrInjected
					}
					return nil
				}
				err := conn.Exec("commit")
				store.Intercept = nil
				if err == nil && len(currentVersions(store, prefix)) > 1 {
					o.Class("commit-acknowledged-parent-not-retired")
				}
				if err != nil {
					// the commit was not acknowledged: nothing of it may be visible or stored,
					// and everything committed afterwards must again be complete on its own
					o.Class("commit-failed-by-storage-fault")
					dirtyHandle = true
					view = preTxn
					if e := conn.Exec("rollback"); e != nil && !strings.Contains(e.Error(), "no transaction") {
						return fmt.Errorf("%s: rollback after failed commit: %v", where, e)
					}
					continue
				}
			} else if !step.Auto {
				if err := conn.Exec("commit"); err != nil {
					return fmt.Errorf("%s: commit: %v", where, err)
				}
			}
			_ = failed
			if err := verify(where); err != nil {
				return err
			}
		case "faulty-vacuum":
			count := 0
			store.Intercept = func(q *fakes3.Req) error {
				if q.Client != "verif://w" || !q.Mutating() {
					return nil
				}
				switch step.FailKind {
				case "node-deletes":
					if q.Op == "DELETE" && strings.Contains(q.Key, "/node/") {
						return fakes3.ErrInjected
					}
					return nil
				case "version-deletes":
					if q.Op == "DELETE" && strings.Contains(q.Key, "/root/") {
						return fakes3.ErrInjected
					}
					return nil
				case "merged-deletes":
					if q.Op == "DELETE" && strings.Contains(q.Key, "/root/merged/") {
						return fakes3.ErrInjected
					}
					return nil
				}
				count++
				if count >= step.FailAt {
					return fakes3.ErrInjected
				}
				return nil
			}
			// cutoff after every write: every delete marker is purged, the tree is re-shaped
			verr := conn.Vacuum(tn, baseTime+1<<30)
			store.Intercept = nil
			// a vacuum installs a clone of the handle's tree: from here on the next BEGIN
			// snapshot shares nodes with it exactly as after a rollback (K4 steer below)
			dirtyHandle = true
			if verr != nil {
				o.Class("vacuum-failed-by-storage-fault")
			} else {
				view.Vacuum(1 << 40)
			}
			// whatever happened, the writer's rows are unchanged and everything committed
			// from here on must again be complete on its own
			if rows, err := conn.Dump(tn); err != nil {
				return fmt.Errorf("%s: scan after the vacuum (error: %v): %v", where, verr, err)
			} else if m := view.Rows(wideCols); !m.Equal(rows) {
				return fmt.Errorf("%s: rows changed across a vacuum (error: %v).\nnow:\n%smodel:\n%s", where, verr, rows, m)
			}
		case "noop-upd":
			if err := conn.SetWriteTime(baseTime + 5); err != nil {
				return err
			}
			if err := conn.Exec("update "+tn+" set a=1 where k=?", "no such key"); err != nil {
				return fmt.Errorf("%s: %v", where, err)
			}
			if err := noPuts("an UPDATE matching no row", from); err != nil {
				return err
			}
			if v, _ := conn.Version(tn); v != verBefore {
				return fmt.Errorf("%s: version changed %s -> %s", where, verBefore, v)
			}
			o.Class("noop")
		case "noop-txn":
			if err := conn.Exec("begin"); err != nil {
				return fmt.Errorf("%s: %v", where, err)
			}
			if _, err := conn.Dump(tn); err != nil {
				return fmt.Errorf("%s: %v", where, err)
			}
			if err := conn.Exec("commit"); err != nil {
				return fmt.Errorf("%s: %v", where, err)
			}
			if err := noPuts("a transaction without writes", from); err != nil {
				return err
			}
			o.Class("noop")
		case "refresh":
			if err := conn.Refresh(tn); err != nil {
				return fmt.Errorf("%s: %v", where, err)
			}
			dirtyHandle = false
			if err := noPuts("refreshing a quiescent table", from); err != nil {
				return err
			}
			if err := verify(where); err != nil {
				return err
			}
			o.Class("noop")
		case "reopen":
			if err := conn.Drop(tn); err != nil {
				return fmt.Errorf("%s: drop: %v", where, err)
			}
			if err := conn.Create(spec); err != nil {
				return fmt.Errorf("%s: re-create: %v", where, err)
			}
			dirtyHandle = false
			if err := noPuts("re-opening a quiescent table", from); err != nil {
				return err
			}
			if err := verify(where); err != nil {
				return err
			}
			o.Class("reopen")
		}
	}
	return nil
}

func parseVersionList(s string) []string {
	s = strings.TrimSpace(s)
	s = strings.TrimPrefix(s, "[")
	s = strings.TrimSuffix(s, "]")
	if s == "" {
		return nil
	}
	var out []string
	for _, p := range strings.Split(s, ",") {
		out = append(out, strings.Trim(strings.TrimSpace(p), `"`))
	}
	sort.Strings(out)
	return out
}

func init() { register("TestC16_History", runC16) }

func TestC16_History(t *testing.T) {
	st := newStats(t, "C16", "TestC16_History", "single-writer histories (entries_per_node 2..4096, cache 0/4/1000, 6-48 keys of all classes, transactions of 1-4 statements, no-op statements, refresh, re-open); after every commit: harness walk of the version object and all nodes, fresh read-only connection compared row by row and entry by entry (timestamps, offsets, previous-version names) with the writer's tree, point lookups; non-trivial = a commit whose tree has height>=1 and an interior node with both absent and present child links")
	st.Assume = append(st.Assume, "multi-row INSERTs that the model predicts to fail are not issued (known findings K3/K4, decided under C05/C06), counted under excluded")
	checkRapid(t, st, genC16Case, runC16)
}

func c16Cache(c C16Case, o *Obs) int {
	if c.NoSteer {
		return c.Cache
	}
	return k4Cache(c.EPN, c.NKeys, c.Cache, o)
}
