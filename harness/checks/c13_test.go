package checks

// C13 — a read-only table never modifies the bucket.

import (
	"fmt"
	"strings"
	"testing"

	"pgregory.net/rapid"
)

type roState struct {
	conn    *Conn
	name    string
	view    MSet
	names   []string // versions listed when it was last (re)opened
	merged2 bool     // opened/refreshed on >= 2 unmerged versions
	tried   bool     // a vacuum or write was attempted
}

func (r *mwRun) roMutations() []string {
	var out []string
	for _, q := range r.store.Log() {
		if q.Client == "verif://ro" && q.Mutating() {
			out = append(out, q.String())
		}
	}
	return out
}

func (r *mwRun) roStep(s MWStep, where string) error {
	if r.ro == nil || s.Op == "ro-open" {
		if r.ro != nil {
			r.ro.conn.Close()
		}
		ro := &roState{conn: newConn(), name: uniqName("ro")}
		names := r.currentNames()
		u, err := r.expectCurrent(r.store, false)
		if err != nil {
			return fmt.Errorf("%s: %v", where, err)
		}
		sp := r.spec
		sp.Name, sp.Client, sp.ReadOnly = ro.name, "ro", true
		setPerm(r.store, r.prefix, s.Perm)
		err = ro.conn.Create(sp)
		setPerm(r.store, r.prefix, nil)
		if err != nil {
			return fmt.Errorf("%s: read-only open: %v", where, err)
		}
		ro.view, ro.names = u, names
		ro.merged2 = len(names) >= 2
		r.ro = ro
		r.closers = append(r.closers, func() { ro.conn.Close() })
	}
	ro := r.ro
	rowsMustBe := func(what string) error {
		got, err := ro.conn.Dump(ro.name)
		if err != nil {
			return fmt.Errorf("%s: %s: read-only scan: %v", where, what, err)
		}
		if want := ro.view.Rows(wideCols); !got.Equal(want) {
			return fmt.Errorf("%s: %s: the read-only table's rows differ from what was committed when it was opened/refreshed.\ns3db:\n%smodel:\n%s", where, what, got, want)
		}
		return nil
	}
	switch s.Op {
	case "ro-open", "ro-select":
		if err := rowsMustBe("select"); err != nil {
			return err
		}
	case "ro-refresh":
		names := r.currentNames()
		u, err := r.expectCurrent(r.store, false)
		if err != nil {
			return fmt.Errorf("%s: %v", where, err)
		}
		setPerm(r.store, r.prefix, s.Perm)
		err = ro.conn.Refresh(ro.name)
		setPerm(r.store, r.prefix, nil)
		if err != nil {
			return fmt.Errorf("%s: refresh of a read-only table: %v", where, err)
		}
		ro.view, ro.names = u, names
		if len(names) >= 2 {
			ro.merged2 = true
		}
		if err := rowsMustBe("after refresh"); err != nil {
			return err
		}
	case "ro-version":
		v, err := ro.conn.Version(ro.name)
		if err != nil {
			return fmt.Errorf("%s: s3db_version: %v", where, err)
		}
		if got, want := strings.Join(parseVersionList(v), ","), strings.Join(sortedCopy(ro.names), ","); got != want {
			return fmt.Errorf("%s: read-only table reports versions %s, it was opened on %s", where, got, want)
		}
	case "ro-vacuum":
		cut := baseTime + s.Cut
		if s.Cut < 0 {
			cut = farFuture
		}
		ro.tried = true
		_ = ro.conn.Vacuum(ro.name, cut) // may report an error; must not touch the bucket
		if err := rowsMustBe("after a vacuum attempt"); err != nil {
			return err
		}
	case "ro-changes":
		if len(r.snaps) > 0 {
			sn := r.snaps[s.Ref%len(r.snaps)]
			cn := uniqName("rochg")
			q := fmt.Sprintf("create virtual table %s using s3db_changes(table='%s', from='%s')", cn, ro.name, sn.Version)
			if err := ro.conn.Exec(q); err != nil {
				return fmt.Errorf("%s: create changes table over a read-only table: %v", where, err)
			}
			_, _ = ro.conn.Query("select * from " + cn)
			_ = ro.conn.Exec("drop table " + cn)
		}
	case "ro-write":
		if len(s.Stmts) != 1 {
			return nil
		}
		st := s.Stmts[0]
		_, added, _ := ro.view.Exec(st, wideCols)
		affects := len(added) > 0 || st.Kind == "ins"
		ro.tried = true
		inTxn := s.Mask%3 != 0
		if inTxn {
			if err := ro.conn.Exec("begin"); err != nil {
				return fmt.Errorf("%s: begin: %v", where, err)
			}
		}
		if err := ro.conn.SetWriteTime(baseTime + st.T); err != nil {
			return err
		}
		q, args := st.SQL(ro.name, "k")
		err := ro.conn.Exec(q, args...)
		if err == nil && affects {
			return fmt.Errorf("%s: %s on a read-only table reported success although it addresses %d row(s)", where, st, len(added))
		}
		if inTxn {
			end := "commit"
			if s.Mask%3 == 2 {
				end = "rollback"
			}
			if e := ro.conn.Exec(end); e != nil && !strings.Contains(e.Error(), "no transaction") {
				return fmt.Errorf("%s: %s after a write attempt on a read-only table: %v", where, end, e)
			}
		}
		r.o.Class("ro-write-attempt")
		if err := rowsMustBe("after a write attempt"); err != nil {
			return err
		}
	}
	if m := r.roMutations(); len(m) > 0 {
		return fmt.Errorf("%s: the read-only table sent mutating requests to the object store: %v", where, m)
	}
	if ro.merged2 && ro.tried {
		r.o.NonTrivial = true
	}
	return nil
}

func genC13Case(t *rapid.T) MWCase {
	g := mwGenCfg{maxWriters: 3, keyChoices: []int{2, 4, 8}, maxSteps: 30,
		wStmt: 12, wTxn: 2, wRefresh: 1, wRetry: 0, wPartial: 1, wObserve: 0, wVacuum: 0,
		wIns: 4, wUpd: 3, wDel: 3, multiRow: true, mode: "c13"}
	c := genMWCase(t, g)
	cfg := stmtGenCfg{keys: intKeys(c.NKeys), cols: wideCols, vals: smallVals(), multiRow: true, wIns: 3, wUpd: 3, wDel: 3}
	var out []MWStep
	nro := 0
	for _, s := range c.Steps {
		out = append(out, s)
		if rapid.IntRange(0, 2).Draw(t, "ro") != 0 {
			continue
		}
		op := rapid.SampledFrom([]string{"ro-open", "ro-select", "ro-refresh", "ro-refresh", "ro-version", "ro-vacuum", "ro-changes", "ro-write", "ro-write", "ro-write"}).Draw(t, "roop")
		rs := MWStep{Op: op, Perm: genPerm(t, "perm"), Ref: rapid.IntRange(0, 100).Draw(t, "ref"), Mask: rapid.IntRange(0, 100).Draw(t, "mask")}
		switch op {
		case "ro-write":
			st := genStmt(t, cfg, "rs")
			nro++
			st.T = int64(50*256 + nro)
			rs.Stmts = []Stmt{st}
		case "ro-vacuum":
			rs.Cut = rapid.SampledFrom([]int64{0, 5000, 20000, -1}).Draw(t, "cut")
		}
		out = append(out, rs)
	}
	c.Steps = out
	return c
}

func init() { register("TestC13_ReadOnly", runMW) }

func TestC13_ReadOnly(t *testing.T) {
	st := newStats(t, "C13", "TestC13_ReadOnly", "multi-writer histories leaving 0..n unmerged versions, with a table created with the readonly option on its own object-store client and generated steps on it: open on the current frontier (generated merge order), SELECT, s3db_refresh, s3db_version, an s3db_changes table over it, s3db_vacuum with any cutoff, INSERT/UPDATE/DELETE attempts inside and outside BEGIN..COMMIT/ROLLBACK, while the writers keep committing; after every step the request log of that client must contain no PUT and no DELETE, write statements addressing >=1 row must fail, and its rows must equal the model of what was committed at its last open/refresh; non-trivial = opened or refreshed on >=2 unmerged versions and at least one vacuum or write attempt")
	checkRapid(t, st, genC13Case, runMW)
}
