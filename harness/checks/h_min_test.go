package checks

// TestMinimize: generic greedy minimiser for a saved case. It removes elements
// from any JSON array inside the case while the replayer keeps failing with a
// message containing VERIF_MIN_MATCH. Used by hand (and by the driver for
// failures rapid could not shrink); writes <file>.min.json.

import (
	"bytes"
	"encoding/json"
	"fmt"
	"os"
	"strings"
	"testing"
)

func minimizeJSON(v interface{}, still func(interface{}) bool, root *interface{}) bool {
	changed := false
	switch x := v.(type) {
	case map[string]interface{}:
		for k, child := range x {
			if arr, ok := child.([]interface{}); ok {
				for i := 0; i < len(arr); i++ {
					cand := append(append([]interface{}{}, arr[:i]...), arr[i+1:]...)
					x[k] = cand
					if still(*root) {
						arr = cand
						changed = true
						i--
					} else {
						x[k] = arr
					}
				}
			}
			if minimizeJSON(x[k], still, root) {
				changed = true
			}
		}
	case []interface{}:
		for _, child := range x {
			if minimizeJSON(child, still, root) {
				changed = true
			}
		}
	}
	return changed
}

func TestMinimize(t *testing.T) {
	path := os.Getenv("VERIF_REPLAY")
	match := os.Getenv("VERIF_MIN_MATCH")
	if path == "" {
		t.Skip("VERIF_REPLAY not set")
	}
	b, err := os.ReadFile(path)
	if err != nil {
		t.Fatal(err)
	}
	var rf replayFile
	if err := json.Unmarshal(b, &rf); err != nil {
		t.Fatal(err)
	}
	run := replayers[rf.Sub]
	var root interface{}
	dec := json.NewDecoder(bytes.NewReader(rf.Case))
	dec.UseNumber() // keep 64-bit integers exact
	if err := dec.Decode(&root); err != nil {
		t.Fatal(err)
	}
	lastMsg := ""
	still := func(v interface{}) bool {
		raw, _ := json.Marshal(v)
		err := run(raw)
		if err == nil {
			return false
		}
		if _, ok := err.(panicErr); ok {
			t.Fatalf("case panics; minimise in subprocesses instead: %v", err)
		}
		if match != "" && !strings.Contains(err.Error(), match) {
			return false
		}
		lastMsg = err.Error()
		return true
	}
	if !still(root) {
		t.Fatalf("case does not fail (with match %q)", match)
	}
	for minimizeJSON(root, still, &root) {
	}
	raw, _ := json.Marshal(root)
	still(root)
	out := strings.TrimSuffix(path, ".json") + ".min.json"
	writeReplay(out, rf.Property, rf.Sub, lastMsg, raw)
	fmt.Printf("minimised: %s\n%s\n%s\n", out, raw, lastMsg)
}
