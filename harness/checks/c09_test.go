package checks

// C09 — vacuum never changes what the table contains.
// C10 — vacuum reclaims exactly what the cutoff allows.
// Both extend the multi-writer runner with vacuum steps.

import (
	"context"
	"fmt"
	"os"
	"sort"
	"strings"
	"testing"

	"github.com/jrhy/s3db"
	"pgregory.net/rapid"

	"verif/fakes3"
)

const farFuture = int64(4102444800) // 2100-01-01
const year2300 = int64(10413792000) // 2300-01-01: UnixNano overflows (from 2262-04-12 on)

type verSnap struct {
	Version string // as returned by s3db_version
	Rows    Rows
}

func (r *mwRun) recordSnap(version string, rows Rows) {
	for _, n := range parseVersionList(version) {
		if _, _, err := loadVersion(r.store, r.prefix, n); err != nil {
			// a vacuum whose cutoff covers it may delete the (empty) current version
			// itself; the name then denotes nothing that can be re-opened
			return
		}
	}
	if r.snapAt == nil {
		r.snapAt = map[string]int{}
	}
	if i, ok := r.snapAt[version]; ok {
		r.snaps[i].Rows = rows
		return
	}
	r.snapAt[version] = len(r.snaps)
	r.snaps = append(r.snaps, verSnap{version, rows})
}

// faultyVacuum: the vacuum runs under a storage fault. Whatever it reports, the vacuuming
// connection goes on showing its rows (no refresh), fresh opens agree with the model, and
// the history goes on. The version-side and reclaim oracles need a vacuum that succeeded.
func (r *mwRun) faultyVacuum(s MWStep, where string, cutSec, modelCut int64, far bool, before Rows, from int) error {
	w := r.ws[s.W]
	client := fmt.Sprintf("verif://w%d", s.W)
	count := 0
	nread := 0
	r.store.Intercept = func(q *fakes3.Req) error {
		if q.Client != client {
			return nil
		}
		if !q.Mutating() {
			// one failing read: the Mask-th LIST, or the (4*Mask)-th GET, of the vacuuming writer
			if (s.VacFault == "nth-list" && q.Op == "LIST") || (s.VacFault == "nth-get" && q.Op == "GET") {
				nread++
				if (s.VacFault == "nth-list" && nread == s.Mask) || (s.VacFault == "nth-get" && nread == 4*s.Mask) {
					return fakes3.ErrInjected
				}
			}
			return nil
		}
		switch s.VacFault {
		case "nth-list", "nth-get":
			return nil
		case "node-deletes":
			if q.Op == "DELETE" && strings.Contains(q.Key, "/node/") {
				return fakes3.ErrInjected
			}
		case "version-deletes":
			if q.Op == "DELETE" && strings.Contains(q.Key, "/root/") {
				return fakes3.ErrInjected
			}
		case "merged-deletes":
			if q.Op == "DELETE" && strings.Contains(q.Key, "/root/merged/") {
				return fakes3.ErrInjected
			}
		default:
			count++
			if count >= s.Mask {
				return fakes3.ErrInjected
			}
		}
		return nil
	}
	verr := w.conn.Vacuum(w.name, cutSec)
	r.store.Intercept = nil
	where = fmt.Sprintf("%s (vacuum under fault %s, reported: %v)", where, s.VacFault, verr)
	if verr != nil {
		r.o.Class("vacuum-failed-by-storage-fault")
	} else {
		r.o.Class("vacuum-under-fault-succeeded")
	}
	// was the vacuum's own (purged) version stored?
	stored, storedName := false, ""
	for _, q := range r.store.LogSince(from) {
		if q.Client == client && q.Op == "PUT" && strings.Contains(q.Key, "/root/current/") && q.Err == "" {
			stored, storedName = true, q.Key[strings.LastIndex(q.Key, "/")+1:]
		}
	}
	onStored := stored && strings.Contains(mustVersion(w), storedName)
	after, err := w.conn.Dump(w.name)
	if err != nil {
		return fmt.Errorf("%s: the vacuuming connection can no longer read the table: %v", where, err)
	}
	if !after.Equal(before) {
		return fmt.Errorf("%s: the visible rows changed.\nbefore:\n%safter:\n%s", where, before, after)
	}
	if stored && onStored {
		w.view.Vacuum(modelCut)
	} else if stored {
		// the purged version is in the bucket but the connection stayed on its old tree:
		// record what the stored version contains so that merged readers can be predicted
		pv := w.view.Clone()
		pv.Vacuum(modelCut)
		r.pub[storedName] = pv
	}
	// superseded versions that were in the bucket while this vacuum ran may have lost nodes
	if r.interrupted == nil {
		r.interrupted = map[string]bool{}
	}
	for _, n := range mergedVersions(r.store, r.prefix) {
		r.interrupted[n] = true
	}
	if err := r.checkWriter(s.W, where); err != nil {
		return err
	}
	if err := r.publish(w); err != nil {
		return fmt.Errorf("%s: %v", where, err)
	}
	if far {
		r.snaps, r.snapAt = nil, nil
		if err := r.publish(w); err != nil {
			return err
		}
	}
	if err := r.observeAll([]int{1, 0, 2}, where+" (observers)"); err != nil {
		return err
	}
	if !far {
		return nil
	}
	for i, ow := range r.ws {
		if i == s.W {
			continue
		}
		u, err := r.expectCurrent(r.store, false)
		if err != nil {
			return fmt.Errorf("%s: %v", where, err)
		}
		if err := ow.conn.Refresh(ow.name); err != nil {
			return fmt.Errorf("%s: refresh of writer %d: %v", where, i, err)
		}
		ow.view = u
		if err := r.checkWriter(i, where+fmt.Sprintf(" (writer %d refreshed)", i)); err != nil {
			return err
		}
		if err := r.publish(ow); err != nil {
			return fmt.Errorf("%s: %v", where, err)
		}
	}
	return nil
}

// Vacuum on the model: forget every operation on keys that are not live and
// whose latest DELETE is older than the cutoff.
func (s MSet) Vacuum(cut int64) (removedKeys int) {
	ids := map[string]bool{}
	for _, o := range s {
		ids[o.KeyID] = true
	}
	for id := range ids {
		live, t, any := s.status(id)
		if any && !live && t < cut {
			for k, o := range s {
				if o.KeyID == id {
					delete(s, k)
				}
			}
			removedKeys++
		}
	}
	return
}

// rowsOfVersion opens the table restricted to the given versions (read-only,
// Go level) and returns the visible rows.
func rowsOfVersion(bucket, prefix string, names []string) (Rows, error) {
	if names == nil {
		names = []string{}
	}
	kvt, err := s3db.OpenKV(context.Background(), s3db.S3Options{Bucket: bucket, Endpoint: "verif://hist", Prefix: prefix, ReadOnly: true, OnlyVersions: names}, "s3db-rows")
	if err != nil {
		return nil, err
	}
	es, err := goDumpKV(kvt)
	if err != nil {
		return nil, err
	}
	return visibleRows(es), nil
}

func visibleRows(es []GoEntry) Rows {
	out := Rows{}
	for _, e := range es {
		if !e.HasRow || e.Deleted || e.Tomb != 0 {
			continue
		}
		row := []string{e.Key}
		for _, c := range wideCols {
			if cv, ok := e.Cols[c]; ok {
				row = append(row, cv.Cell)
			} else {
				row = append(row, "N")
			}
		}
		out = append(out, row)
	}
	return out.Sorted()
}

// reachability of every version object present in the bucket
type reachInfo struct {
	versions map[string]*Walk // name -> walk
	parents  map[string][]string
}

func (r *mwRun) reach(st *fakes3.Store) (*reachInfo, []string) {
	ri := &reachInfo{versions: map[string]*Walk{}, parents: map[string][]string{}}
	var problems []string
	names := currentVersions(st, r.prefix)
	for _, n := range mergedVersions(st, r.prefix) {
		// a vacuum that was cut short by a storage fault deletes nodes before the objects of the
		// superseded versions that needed them: those leftovers are not retained versions
		// (nothing lists them for opening); versions merged after it are examined as usual
		if r.interrupted != nil && r.interrupted[n] {
			continue
		}
		names = append(names, n)
	}
	for _, n := range names {
		if _, ok := ri.versions[n]; ok {
			continue
		}
		w, err := walkVersion(st, r.prefix, n)
		if err != nil {
			problems = append(problems, err.Error())
			continue
		}
		ri.versions[n] = w
		ri.parents[n] = w.Version.Parents
		for _, p := range w.Problems {
			problems = append(problems, fmt.Sprintf("version %s: %s", n, p))
		}
	}
	return ri, problems
}

func (r *mwRun) vacuumStep(s MWStep, where string) error {
	w := r.ws[s.W]
	cutSec := baseTime + s.Cut
	far := s.Cut < 0
	if far {
		cutSec = farFuture
	}
	if s.Cut == -2 {
		// a cutoff whose nanosecond count does not fit 64 bits (year 2300): "any cutoff"
		cutSec = year2300
		r.o.Class("vacuum-cutoff-beyond-int64-nanoseconds")
	}
	modelCut := s.Cut
	if far {
		modelCut = 1 << 40
	}
	c10 := r.c.Mode == "c10"
	where = fmt.Sprintf("%s cutoff=%d", where, s.Cut)

	before, err := w.conn.Dump(w.name)
	if err != nil {
		return fmt.Errorf("%s: scan before vacuum: %v", where, err)
	}
	riBefore, _ := r.reach(r.store)
	nodesBefore := nodeObjects(r.store, r.prefix)
	from := r.store.LogLen()

	if s.VacFault != "" {
		return r.faultyVacuum(s, where, cutSec, modelCut, far, before, from)
	}
	if err := w.conn.Vacuum(w.name, cutSec); err != nil {
		return fmt.Errorf("%s: s3db_vacuum fails: %v", where, err)
	}
	r.o.Class("vacuum")
	if os.Getenv("VERIF_TRACE") != "" {
		for _, q := range r.store.LogSince(from) {
			if q.Op != "GET" || strings.Contains(q.Key, "/root/") {
				fmt.Fprintf(os.Stderr, "  %s: %s miss=%v\n", where, q.String(), q.Miss)
			}
		}
	}
	deletedNodes := 0
	for _, q := range r.store.LogSince(from) {
		if q.Op == "DELETE" && strings.Contains(q.Key, "/node/") {
			deletedNodes++
		}
	}

	// (C09 i) the vacuuming connection sees what it saw
	after, err := w.conn.Dump(w.name)
	if err != nil {
		return fmt.Errorf("%s: the table is unreadable after vacuum: %v", where, err)
	}
	if !after.Equal(before) {
		return fmt.Errorf("%s: vacuum changed the visible rows.\nbefore:\n%safter:\n%s", where, before, after)
	}
	removed := w.view.Vacuum(modelCut)
	if removed > 0 {
		r.o.Class("vacuum-purged-markers")
	}
	if err := r.checkWriter(s.W, where); err != nil {
		return err
	}
	if err := r.publish(w); err != nil {
		return fmt.Errorf("%s: %v", where, err)
	}

	// (C09 iv) no version object still present refers to a deleted object
	riAfter, problems := r.reach(r.store)
	if len(problems) > 0 {
		return fmt.Errorf("%s: after vacuum a retained version refers to a missing object: %s", where, strings.Join(problems, "; "))
	}
	// shared nodes between deleted and retained versions => the interesting case
	if deletedNodes > 0 {
		r.o.Class("vacuum-deleted-nodes")
		retainedNodes := map[string]bool{}
		for _, wk := range riAfter.versions {
			for n := range wk.Nodes {
				retainedNodes[n] = true
			}
		}
		shared := false
		for name, wk := range riBefore.versions {
			if _, still := riAfter.versions[name]; still {
				continue
			}
			for n := range wk.Nodes {
				if retainedNodes[n] {
					shared = true
				}
			}
		}
		if shared {
			if !c10 {
				r.o.NonTrivial = true
			}
			r.o.Class("vacuum-deleted-version-shares-node-with-retained")
		}
	}

	// (C09 ii) fresh opens see the same, and the table is still writable (next steps write)
	if err := r.observeAll([]int{1, 0, 2}, where+" (observers after vacuum)"); err != nil {
		return err
	}

	// (C09 iii) versions created at/after the cutoff still give their recorded rows.
	// Version creation is wall-clock time (now), so every cutoff in the generated
	// 2020 range keeps every version; the year-2100 cutoff keeps none for sure.
	if !far {
		// the version the vacuuming connection is on afterwards was created after the cutoff:
		// this vacuum must not have deleted its object (for an emptied table a skipped version
		// and an empty one read the same, so the re-read below cannot tell)
		if v, err := w.conn.Version(w.name); err == nil {
			for _, n := range parseVersionList(v) {
				for _, q := range r.store.LogSince(from) {
					if q.Op == "DELETE" && q.Err == "" && q.Key == r.prefix+"root/current/"+n {
						if _, mer := r.store.Get(r.prefix + "root/merged/" + n); !mer {
							return fmt.Errorf("%s: the vacuum deleted the object of version %s, which was created after the cutoff and is the version the connection reports afterwards", where, n)
						}
					}
				}
			}
		}
		for _, sn := range r.snaps {
			names := parseVersionList(sn.Version)
			if len(names) == 0 {
				continue
			}
			rows, err := rowsOfVersion(r.bucket, "", names)
			if err != nil {
				return fmt.Errorf("%s: version %s, created after the cutoff, no longer opens: %v", where, sn.Version, err)
			}
			if !rows.Equal(sn.Rows) {
				return fmt.Errorf("%s: version %s no longer gives its recorded rows.\nrecorded:\n%snow:\n%s", where, sn.Version, sn.Rows, rows)
			}
		}
		r.o.ClassN("old-versions-reread", len(r.snaps))
	} else {
		// what was superseded before 2100 may be gone: forget the recordings
		r.snaps, r.snapAt = nil, nil
		if err := r.publish(w); err != nil {
			return err
		}
	}
	// After a year-2100 vacuum the other writers pick up the vacuumed state before
	// they write again (a writer that keeps building on a version whose objects the
	// cutoff allowed to delete is outside the property). Done last.
	refreshOthers := func() error {
		if !far {
			return nil
		}
		for i, ow := range r.ws {
			if i == s.W {
				continue
			}
			u, err := r.expectCurrent(r.store, false)
			if err != nil {
				return fmt.Errorf("%s: %v", where, err)
			}
			if err := ow.conn.Refresh(ow.name); err != nil {
				return fmt.Errorf("%s: refresh of writer %d after vacuum: %v", where, i, err)
			}
			ow.view = u
			if err := r.checkWriter(i, where+fmt.Sprintf(" (writer %d refreshed after vacuum)", i)); err != nil {
				return err
			}
			if err := r.publish(ow); err != nil {
				return fmt.Errorf("%s: %v", where, err)
			}
		}
		return nil
	}

	if !c10 {
		return refreshOthers()
	}
	// ---- C10 ----
	// (a) row side: no delete marker older than the cutoff, no tombstone, size = entries
	es, err := goDump(w.name)
	if err != nil {
		return fmt.Errorf("%s: tree dump: %v", where, err)
	}
	cutNs := cutSec * 1e9
	markersKept, markersBelow := 0, 0
	for _, e := range es {
		if e.Tomb != 0 {
			return fmt.Errorf("%s: a purge tombstone for key %s is left in the table after vacuum", where, e.Key)
		}
		if e.HasRow && e.Deleted {
			if e.DelT < cutNs {
				markersBelow++
				return fmt.Errorf("%s: key %s was deleted at %d, before the cutoff %d, but its delete marker still occupies the table", where, e.Key, e.DelT/1e9-baseTime, s.Cut)
			}
			markersKept++
		}
	}
	if sz := tableSize(w.name); sz != len(es) {
		return fmt.Errorf("%s: tree size %d but %d entries", where, sz, len(es))
	}
	if removed > 0 && markersKept > 0 {
		r.o.NonTrivial = true
		r.o.Class("cutoff-between-delete-times")
	}
	// (b) version side (only the year-2100 cutoff makes versions eligible at SQL level)
	if far {
		cur := parseVersionList(mustVersion(w))
		anc := map[string]bool{}
		var visit func(n string)
		visit = func(n string) {
			if anc[n] {
				return
			}
			anc[n] = true
			for _, p := range riBefore.parents[n] {
				visit(p)
			}
			if wk, ok := riAfter.versions[n]; ok {
				for _, p := range wk.Version.Parents {
					visit(p)
				}
			}
		}
		for _, n := range cur {
			visit(n)
		}
		isCur := map[string]bool{}
		for _, n := range cur {
			isCur[n] = true
		}
		for _, n := range mergedVersions(r.store, r.prefix) {
			if !anc[n] || isCur[n] { // the vacuumed version itself may have been retired by another writer
				continue
			}
			return fmt.Errorf("%s: version %s was superseded before the cutoff (it is an ancestor of the vacuumed version) but its object is still in the bucket", where, n)
		}
		// objects only deleted versions needed must be gone
		needed := map[string]bool{}
		for _, wk := range riAfter.versions {
			for n := range wk.Nodes {
				needed[n] = true
			}
		}
		var garbage []string
		nodesNow := map[string]bool{}
		for _, n := range nodeObjects(r.store, r.prefix) {
			nodesNow[n] = true
		}
		for name, wk := range riBefore.versions {
			if _, still := riAfter.versions[name]; still || !anc[name] || isCur[name] {
				continue
			}
			for n := range wk.Nodes {
				if !needed[n] && nodesNow[n] {
					garbage = append(garbage, n)
					if os.Getenv("VERIF_TRACE") != "" {
						var owners []string
						for vn, vw := range riBefore.versions {
							if d, ok := vw.Nodes[n]; ok {
								owners = append(owners, fmt.Sprintf("%s@depth%d", vn[7:12], d))
							}
						}
						fmt.Fprintf(os.Stderr, "  garbage node %s of deleted version %s (parents %v) owners %v\n", n[:6], name[7:12], wk.Version.Parents, owners)
					}
				}
			}
		}
		if os.Getenv("VERIF_TRACE") != "" {
			for name, wk := range riBefore.versions {
				_, still := riAfter.versions[name]
				fmt.Fprintf(os.Stderr, "  version %s parents %v still=%v anc=%v nodes=%d\n", name, wk.Version.Parents, still, anc[name], len(wk.Nodes))
			}
		}
		if len(garbage) > 0 && len(r.interrupted) > 0 {
			// a vacuum that was cut short can no longer work out what the versions it half-deleted
			// needed: what it left behind is not demanded of later vacuums (DESIGN 9.1)
			r.o.Exclude("garbage-check-after-interrupted-vacuum")
			garbage = nil
		}
		if len(garbage) > 0 {
			sort.Strings(garbage)
			return fmt.Errorf("%s: %d node object(s) that only deleted versions needed are still in the bucket: %v", where, len(garbage), garbage[:min(3, len(garbage))])
		}
		_ = nodesBefore
		r.o.Class("far-vacuum-version-side-checked")
	}
	// (c) the same vacuum again changes nothing
	// (a DELETE request for an object that is already gone changes nothing and is allowed)
	snapBefore := r.store.Snapshot()
	from = r.store.LogLen()
	if err := w.conn.Vacuum(w.name, cutSec); err != nil {
		return fmt.Errorf("%s: repeating the vacuum fails: %v", where, err)
	}
	snapAfter := r.store.Snapshot()
	var changed []string
	for k, v := range snapBefore {
		if v2, ok := snapAfter[k]; !ok || string(v2) != string(v) {
			changed = append(changed, "removed/changed "+k)
		}
	}
	for k := range snapAfter {
		if _, ok := snapBefore[k]; !ok {
			changed = append(changed, "added "+k)
		}
	}
	if len(changed) > 0 {
		sort.Strings(changed)
		return fmt.Errorf("%s: repeating the same vacuum still modifies the bucket: %v (requests: %v)", where, changed, putsIn(r.store.LogSince(from)))
	}
	again, err := w.conn.Dump(w.name)
	if err != nil || !again.Equal(before) {
		return fmt.Errorf("%s: rows after repeating the vacuum differ (err %v)", where, err)
	}
	if err := r.publish(w); err != nil {
		return err
	}
	return refreshOthers()
}

func mustVersion(w *mwWriter) string {
	v, err := w.conn.Version(w.name)
	if err != nil {
		return ""
	}
	return v
}

func vacGen(mode string) mwGenCfg {
	if mode == "c10" {
		// more deletes, so that cutoffs fall between delete times
		return mwGenCfg{maxWriters: 3, keyChoices: []int{4, 6, 10}, maxSteps: 40,
			wStmt: 14, wTxn: 2, wRefresh: 3, wRetry: 0, wPartial: 0, wObserve: 0, wVacuum: 5,
			wIns: 5, wUpd: 1, wDel: 6, multiRow: true, mode: mode, smallVals: true}
	}
	return mwGenCfg{maxWriters: 3, keyChoices: []int{2, 4, 6, 10}, maxSteps: 40,
		wStmt: 12, wTxn: 3, wRefresh: 3, wRetry: 0, wPartial: 0, wObserve: 0, wVacuum: 4,
		wIns: 4, wUpd: 3, wDel: 4, multiRow: true, mode: mode, smallVals: true, returnPattern: 8}
}

func init() {
	register("TestC09_Vacuum", runMW)
	register("TestC10_Reclaim", runMW)
}

func TestC09_Vacuum(t *testing.T) {
	st := newStats(t, "C09", "TestC09_Vacuum", "multi-writer histories (1-3 writers, 2-10 keys, values from {NULL,1,2} so tables often return to an earlier content and content-addressed nodes are shared between old and new versions) with s3db_vacuum at arbitrary points, cutoffs before all writes / equal to or one second after a write time / after all writes / year 2100; per vacuum: rows on the vacuuming connection before = after = model, 4-6 fresh read-only and read-write observers = model, every version object left in the bucket walked with the harness decoders (every node link resolves), every earlier recorded s3db_version re-opened and compared with its recorded rows (cutoffs below the versions' creation time), later statements still work; non-trivial = a vacuum that deleted node objects while a retained version shares a node name with a deleted version")
	st.Assume = append(st.Assume, "after a year-2100 vacuum the other writers refresh before writing again (building on versions the cutoff allowed to delete is outside the property)")
	g := vacGen("c09")
	checkRapid(t, st, func(rt *rapid.T) MWCase { return genMWCase(rt, g) }, runMW)
}

func TestC10_Reclaim(t *testing.T) {
	st := newStats(t, "C10", "TestC10_Reclaim", "the histories of C09; after every successful vacuum: the entry-level dump holds no delete marker older than the cutoff and no purge tombstone, tree size = number of entries; for the year-2100 cutoff no ancestor version object of the vacuumed version is left and no node object that only deleted versions referred to is left; repeating the same vacuum issues no PUT/DELETE and leaves listing and rows unchanged; late-arriving older writes against kept/purged markers follow the reference model; non-trivial = a cutoff with purged markers below it and kept markers at or above it")
	g := vacGen("c10")
	checkRapid(t, st, func(rt *rapid.T) MWCase { return genMWCase(rt, g) }, runMW)
}
