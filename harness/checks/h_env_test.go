package checks

// Common plumbing: environment, per-run statistics (-> evidence), journal,
// replay files, rapid wrapper.

import (
	"crypto/sha256"
	"encoding/binary"
	"encoding/json"
	"fmt"
	"os"
	"path/filepath"
	"runtime/debug"
	"sort"
	"strconv"
	"strings"
	"sync"
	"testing"

	"pgregory.net/rapid"
)

func envInt(name string, def int) int {
	if s := os.Getenv(name); s != "" {
		if n, err := strconv.Atoi(s); err == nil {
			return n
		}
	}
	return def
}

func envStr(name, def string) string {
	if s := os.Getenv(name); s != "" {
		return s
	}
	return def
}

var (
	outDir  = envStr("VERIF_OUT", "")
	shardNo = envInt("VERIF_SHARD", 0)
	tier    = envStr("VERIF_TIER", "quick")
)

func thorough() bool { return tier == "thorough" }

// ---------------------------------------------------------------------------

// Obs is what one case execution reports about itself.
type Obs struct {
	NonTrivial bool
	Classes    map[string]int
	Excluded   map[string]int
}

func (o *Obs) Class(name string) {
	if o.Classes == nil {
		o.Classes = map[string]int{}
	}
	o.Classes[name]++
}

func (o *Obs) ClassN(name string, n int) {
	if n == 0 {
		return
	}
	if o.Classes == nil {
		o.Classes = map[string]int{}
	}
	o.Classes[name] += n
}

func (o *Obs) Exclude(id string) {
	if o.Excluded == nil {
		o.Excluded = map[string]int{}
	}
	o.Excluded[id]++
}

type violation struct {
	Replay string `json:"replay"`
	Msg    string `json:"msg"`
}

// Stats accumulates what a (sub-)check covered in this process.
type Stats struct {
	mu         sync.Mutex
	Prop       string
	Sub        string
	Rule       string
	Evals      int
	nt         map[uint64]struct{}
	Classes    map[string]int
	Excluded   map[string]int
	Samples    []json.RawMessage
	Violations []violation
	Extra      map[string]interface{}
	Assume     []string
	flushed    bool
}

func newStats(t testing.TB, prop, sub, rule string) *Stats {
	st := &Stats{Prop: prop, Sub: sub, Rule: rule, nt: map[uint64]struct{}{},
		Classes: map[string]int{}, Excluded: map[string]int{}, Extra: map[string]interface{}{}}
	t.Cleanup(st.flush)
	return st
}

func hash64(b []byte) uint64 {
	h := sha256.Sum256(b)
	return binary.BigEndian.Uint64(h[:8])
}

// record folds one executed case into the statistics. raw is the canonical
// JSON of the case.
func (st *Stats) record(raw []byte, o *Obs) {
	st.mu.Lock()
	defer st.mu.Unlock()
	st.Evals++
	for k, v := range o.Classes {
		st.Classes[k] += v
	}
	for k, v := range o.Excluded {
		st.Excluded[k] += v
	}
	if o.NonTrivial {
		st.Classes["nontrivial"]++
		h := hash64(raw)
		if _, ok := st.nt[h]; !ok {
			st.nt[h] = struct{}{}
			if len(st.Samples) < 3 && len(raw) < 6000 {
				st.Samples = append(st.Samples, json.RawMessage(append([]byte(nil), raw...)))
			}
		}
	}
}

// count is for enumerations that are not funnelled through runCase: n
// evaluations, of which the given hashes were non-trivial.
func (st *Stats) count(n int) {
	st.mu.Lock()
	st.Evals += n
	st.mu.Unlock()
}

func (st *Stats) addViolation(replay, msg string) {
	st.mu.Lock()
	defer st.mu.Unlock()
	if len(msg) > 4000 {
		msg = msg[:4000]
	}
	st.Violations = append(st.Violations, violation{replay, msg})
}

func (st *Stats) flush() {
	st.mu.Lock()
	defer st.mu.Unlock()
	if outDir == "" {
		return
	}
	hs := make([]uint64, 0, len(st.nt))
	for h := range st.nt {
		hs = append(hs, h)
	}
	sort.Slice(hs, func(i, j int) bool { return hs[i] < hs[j] })
	hx := make([]string, len(hs))
	for i, h := range hs {
		hx[i] = strconv.FormatUint(h, 16)
	}
	out := map[string]interface{}{
		"property":    st.Prop,
		"sub":         st.Sub,
		"rule":        st.Rule,
		"evaluations": st.Evals,
		"nt_hashes":   hx,
		"classes":     st.Classes,
		"excluded":    st.Excluded,
		"samples":     st.Samples,
		"violations":  st.Violations,
		"extra":       st.Extra,
		"assumptions": st.Assume,
	}
	b, _ := json.Marshal(out)
	_ = os.WriteFile(filepath.Join(outDir, fmt.Sprintf("stats-%s-%d.json", st.Sub, shardNo)), b, 0o644)
}

// ---------------------------------------------------------------------------

type replayFile struct {
	Property string          `json:"property"`
	Sub      string          `json:"sub"`
	Msg      string          `json:"msg,omitempty"`
	Case     json.RawMessage `json:"case"`
}

var replayers = map[string]func(json.RawMessage) error{}

// register makes a case runner reachable from TestReplay.
func register[C any](sub string, run func(c C, o *Obs) error) {
	replayers[sub] = func(raw json.RawMessage) error {
		var c C
		if err := json.Unmarshal(raw, &c); err != nil {
			return fmt.Errorf("bad replay case: %w", err)
		}
		return safeRun(run, c, &Obs{})
	}
}

// panicErr marks an error produced by recovering a panic. A panic that unwound
// through SQLite's C frames leaves its mutexes held, so the process must not
// touch that connection again: callers record the case and exit.
type panicErr struct{ msg string }

func (p panicErr) Error() string { return p.msg }

func safeRun[C any](run func(c C, o *Obs) error, c C, o *Obs) (err error) {
	defer func() {
		if r := recover(); r != nil {
			err = panicErr{fmt.Sprintf("PANIC: %v\n%s", r, truncate(string(debug.Stack()), 2500))}
		}
	}()
	return run(c, o)
}

func writeReplay(path, prop, sub, msg string, raw []byte) {
	rf := replayFile{Property: prop, Sub: sub, Msg: msg, Case: raw}
	b, _ := json.MarshalIndent(rf, "", " ")
	_ = os.WriteFile(path, b, 0o644)
}

// runCase executes one case under the journal, records it, and returns the
// error of the property (nil = held).
func runCase[C any](st *Stats, c C, run func(c C, o *Obs) error) error {
	raw, err := json.Marshal(c)
	if err != nil {
		panic(err)
	}
	if outDir != "" {
		writeReplay(filepath.Join(outDir, fmt.Sprintf("journal-%s-%d.json", st.Sub, shardNo)), st.Prop, st.Sub, "journal", raw)
	}
	o := &Obs{}
	err = safeRun(run, c, o)
	st.record(raw, o)
	if err != nil && outDir != "" {
		p := filepath.Join(outDir, fmt.Sprintf("fail-%s-%d.json", st.Sub, shardNo))
		writeReplay(p, st.Prop, st.Sub, err.Error(), raw)
		st.mu.Lock()
		st.Extra["last_fail"] = p
		st.Extra["last_fail_msg"] = truncate(err.Error(), 3000)
		st.mu.Unlock()
	}
	if _, ok := err.(panicErr); ok && outDir != "" {
		// cannot go on (and cannot shrink) in this process
		st.addViolation(filepath.Join(outDir, fmt.Sprintf("fail-%s-%d.json", st.Sub, shardNo)), truncate(err.Error(), 3000))
		st.flush()
		fmt.Printf("panic in case; process exits\n%s\n", err)
		os.Exit(3)
	}
	return err
}

func truncate(s string, n int) string {
	if len(s) > n {
		return s[:n] + "…"
	}
	return s
}

// checkRapid drives run over cases drawn by gen. Every random choice is made
// by rapid, so failures shrink; the last failing case is the minimal one
// (rapid re-executes it at the end) and is what the replay file holds.
func checkRapid[C any](t *testing.T, st *Stats, gen func(*rapid.T) C, run func(c C, o *Obs) error) {
	t.Helper()
	defer func() {
		st.mu.Lock()
		p, _ := st.Extra["last_fail"].(string)
		m, _ := st.Extra["last_fail_msg"].(string)
		st.mu.Unlock()
		if t.Failed() && p != "" {
			st.addViolation(p, m)
		} else if t.Failed() {
			st.addViolation("", "test failed without a recorded case")
		}
	}()
	rapid.Check(t, func(rt *rapid.T) {
		c := gen(rt)
		if err := runCase(st, c, run); err != nil {
			rt.Fatalf("%s: %v", st.Sub, err)
		}
	})
}

// ---------------------------------------------------------------------------

// TestReplay re-executes a saved case without rapid: VERIF_REPLAY=<file>.
func TestReplay(t *testing.T) {
	path := os.Getenv("VERIF_REPLAY")
	if path == "" {
		t.Skip("VERIF_REPLAY not set")
	}
	b, err := os.ReadFile(path)
	if err != nil {
		t.Fatalf("read replay: %v", err)
	}
	var rf replayFile
	if err := json.Unmarshal(b, &rf); err != nil {
		t.Fatalf("parse replay: %v", err)
	}
	run, ok := replayers[rf.Sub]
	if !ok {
		t.Fatalf("no replayer registered for %q", rf.Sub)
	}
	if err := run(rf.Case); err != nil {
		fmt.Printf("REPLAY-FAIL %s\n", strings.ReplaceAll(truncate(err.Error(), 3000), "\n", " ⏎ "))
		if _, ok := err.(panicErr); ok {
			os.Exit(3)
		}
		t.Fatalf("replay failed: %v", err)
	}
	fmt.Printf("REPLAY-OK\n")
}
