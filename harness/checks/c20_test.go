package checks

// C20 — table definitions are accepted, declared and rejected consistently.

import (
	"fmt"
	"strings"
	"testing"

	"github.com/jrhy/s3db"
	"github.com/jrhy/s3db/sql"
	"github.com/jrhy/s3db/sql/parse"
	sqlTypes "github.com/jrhy/s3db/sql/types"
	"pgregory.net/rapid"

	"verif/fakes3"
)

type DDLCol struct {
	Name    string `json:"name"`
	Quote   string `json:"quote,omitempty"` // "", "'", "\""
	Type    string `json:"type,omitempty"`
	PK      bool   `json:"pk,omitempty"`
	NotNull bool   `json:"notnull,omitempty"`
	PKFirst bool   `json:"pk_first,omitempty"` // order of "primary key" and "not null"
}

type DDLCase struct {
	Cols     []DDLCol `json:"cols"`
	TrailPK  int      `json:"trail_pk"` // -1 none; else index of the column named by a trailing PRIMARY KEY(...)
	TrailQ   string   `json:"trail_q,omitempty"`
	Upper    bool     `json:"upper,omitempty"`     // keywords in upper case
	Sep      string   `json:"sep,omitempty"`       // whitespace between tokens
	PreComma string   `json:"pre_comma,omitempty"` // whitespace before each comma
	Lead     string   `json:"lead,omitempty"`      // whitespace before the first column
	Trail    string   `json:"trail,omitempty"`     // whitespace after the last item
	Opts     []string `json:"opts"`                // extra options, rendered as given
	OptOrder []int    `json:"opt_order,omitempty"`
	Mutation string   `json:"mutation,omitempty"` // "" = valid
	MutArg   int      `json:"mut_arg,omitempty"`
}

var plainNames = []string{"a", "b", "c", "id", "name", "email", "col_1", "_x", "k2", "Value", "ZZ"}
var quotedNames = []string{"a b", "select", "primary", "table", "order by", "é", "日本語", "with-dash", "1st", "it's", "x.y", "UPPER lower", "key", "not", "x\"y", "say \"hi\"", "\"lead"}

func (c DDLCol) render(kw func(string) string, sep string) string {
	name := c.Name
	switch c.Quote {
	case "'":
		name = "'" + strings.ReplaceAll(c.Name, "'", "''") + "'"
	case "\"":
		name = "\"" + c.Name + "\""
	}
	parts := []string{name}
	if c.Type != "" {
		parts = append(parts, c.Type)
	}
	pk, nn := kw("primary")+sep+kw("key"), kw("not")+sep+kw("null")
	if c.PK && c.NotNull {
		if c.PKFirst {
			parts = append(parts, pk, nn)
		} else {
			parts = append(parts, nn, pk)
		}
	} else if c.PK {
		parts = append(parts, pk)
	} else if c.NotNull {
		parts = append(parts, nn)
	}
	return strings.Join(parts, sep)
}

func (c DDLCase) kw() func(string) string {
	if c.Upper {
		return strings.ToUpper
	}
	return func(s string) string { return s }
}

// columnsText renders the columns='...' value (before SQL quoting).
func (c DDLCase) columnsText() string {
	sep := c.Sep
	if sep == "" {
		sep = " "
	}
	kw := c.kw()
	var items []string
	for _, col := range c.Cols {
		items = append(items, col.render(kw, sep))
	}
	if c.TrailPK >= 0 && c.TrailPK < len(c.Cols) {
		col := c.Cols[c.TrailPK]
		name := col.Name
		tq := c.TrailQ
		if strings.Contains(name, "\"") {
			tq = "'" // only the single-quoted form can hold a double quote
		}
		switch tq {
		case "'":
			name = "'" + strings.ReplaceAll(name, "'", "''") + "'"
		case "\"":
			name = "\"" + name + "\""
		default:
			if col.Quote != "" {
				name = "\"" + name + "\""
			}
		}
		items = append(items, kw("primary")+sep+kw("key")+"("+name+")")
	}
	// layout: optional white space before each comma, and before / after the whole list
	return c.Lead + strings.Join(items, c.PreComma+","+sep) + c.Trail
}

func genDDLCase(t *rapid.T) DDLCase {
	c := DDLCase{TrailPK: -1, Upper: rapid.Bool().Draw(t, "upper"), Sep: rapid.SampledFrom([]string{" ", " ", "  ", "\t", "\n ", " \n"}).Draw(t, "sep")}
	c.PreComma = rapid.SampledFrom([]string{"", "", " ", "\t", "\n", "  "}).Draw(t, "precomma")
	c.Lead = rapid.SampledFrom([]string{"", "", " ", "\n  "}).Draw(t, "lead")
	c.Trail = rapid.SampledFrom([]string{"", "", " ", "\n", "\t "}).Draw(t, "trail")
	n := rapid.IntRange(1, 5).Draw(t, "ncols")
	used := map[string]bool{}
	for len(c.Cols) < n {
		var col DDLCol
		if rapid.IntRange(0, 2).Draw(t, "quoted") == 0 {
			col.Name = rapid.SampledFrom(quotedNames).Draw(t, "qname")
			col.Quote = rapid.SampledFrom([]string{"'", "\""}).Draw(t, "q")
			if strings.Contains(col.Name, "\"") {
				col.Quote = "'" // a name holding a double quote can only be written in the single-quoted form
			}
		} else {
			col.Name = rapid.SampledFrom(plainNames).Draw(t, "name")
			col.Quote = rapid.SampledFrom([]string{"", "", "", "\"", "'"}).Draw(t, "q")
		}
		if used[strings.ToLower(col.Name)] {
			continue
		}
		used[strings.ToLower(col.Name)] = true
		if rapid.IntRange(0, 2).Draw(t, "typed") == 0 {
			col.Type = rapid.SampledFrom([]string{"text", "varchar", "integer", "number", "real", "TEXT", "Integer", "REAL"}).Draw(t, "type")
		}
		c.Cols = append(c.Cols, col)
	}
	switch rapid.IntRange(0, 3).Draw(t, "pkstyle") {
	case 0: // no key
	case 1:
		c.TrailPK = rapid.IntRange(0, n-1).Draw(t, "trailpk")
		c.TrailQ = rapid.SampledFrom([]string{"", "\"", "'"}).Draw(t, "trailq")
	default:
		i := rapid.IntRange(0, n-1).Draw(t, "pkcol")
		c.Cols[i].PK = true
		c.Cols[i].PKFirst = rapid.Bool().Draw(t, "pkfirst")
	}
	for i := range c.Cols {
		// NOT NULL only where the property names it: on the key (non-key NOT NULL is
		// declared but, as documented, not used)
		if (c.Cols[i].PK || c.TrailPK == i) && rapid.Bool().Draw(t, "notnull") {
			c.Cols[i].NotNull = true
		}
	}
	// options of the documented surface
	if rapid.Bool().Draw(t, "epn") {
		c.Opts = append(c.Opts, fmt.Sprintf("entries_per_node=%d", rapid.SampledFrom([]int{2, 3, 64, 4096, 100}).Draw(t, "epnv")))
	}
	if rapid.Bool().Draw(t, "cache") {
		c.Opts = append(c.Opts, fmt.Sprintf("node_cache_entries=%d", rapid.SampledFrom([]int{0, 1, 10, 1000}).Draw(t, "cachev")))
	}
	if rapid.IntRange(0, 3).Draw(t, "ro") == 0 {
		c.Opts = append(c.Opts, "readonly")
	}
	if rapid.Bool().Draw(t, "prefix") {
		c.Opts = append(c.Opts, rapid.SampledFrom([]string{"s3_prefix='/p1'", "s3_prefix=p2", "s3_prefix='a/b/'", "s3_prefix=\"q\"", "s3_prefix='2024data'", "s3_prefix=7"}).Draw(t, "prefixv"))
	}
	c.OptOrder = rapid.Permutation(seq(len(c.Opts)+3)).Draw(t, "order")
	if rapid.IntRange(0, 1).Draw(t, "mutate") == 0 {
		c.Mutation = rapid.SampledFrom([]string{
			"unknown-option", "duplicate-option", "option-without-value", "non-numeric-epn", "non-numeric-cache",
			"missing-columns", "empty-columns", "composite-key", "two-keys", "key-names-no-column",
			"unique", "default", "duplicate-column", "duplicate-column-case", "unbalanced-quote",
			"endpoint-without-bucket", "storage-refuses-open", "text-after-quoted-value", "text-after-quoted-value",
		}).Draw(t, "mutation")
		c.MutArg = rapid.IntRange(0, 100).Draw(t, "mutarg")
	}
	return c
}

// args renders the full argument list. It returns false when the mutation
// does not apply to this case.
func (c DDLCase) args(bucket string) ([]string, bool) {
	cols := c.columnsText()
	opts := append([]string(nil), c.Opts...)
	kw := c.kw()
	ncol := len(c.Cols)
	pick := 0
	if ncol > 0 {
		pick = c.MutArg % ncol
	}
	hasKey := c.TrailPK >= 0
	for _, col := range c.Cols {
		hasKey = hasKey || col.PK
	}
	includeColumns := true
	switch c.Mutation {
	case "":
	case "unknown-option":
		opts = append(opts, []string{"foo=1", "entries_per_nod=4", "columnz='a'", "read_only", "s3_region='x'"}[c.MutArg%5])
	case "duplicate-option":
		if len(opts) == 0 {
			opts = append(opts, "readonly")
		}
		opts = append(opts, opts[c.MutArg%len(opts)])
	case "option-without-value":
		opts = append(opts, []string{"entries_per_node", "node_cache_entries", "s3_prefix"}[c.MutArg%3])
	case "non-numeric-epn":
		opts = dropOpt(opts, "entries_per_node")
		opts = append(opts, "entries_per_node="+[]string{"many", "4.5", "", "'8'", "4x"}[c.MutArg%5])
	case "non-numeric-cache":
		opts = dropOpt(opts, "node_cache_entries")
		opts = append(opts, "node_cache_entries="+[]string{"many", "1.5", "", "xyz", "1e3"}[c.MutArg%5])
	case "missing-columns":
		includeColumns = false
	case "empty-columns":
		cols = ""
	case "composite-key":
		if ncol < 2 || hasKey {
			return nil, false
		}
		cols += ", " + kw("primary") + " " + kw("key") + "(" + quoteIdent(c.Cols[0].Name) + ", " + quoteIdent(c.Cols[1].Name) + ")"
	case "two-keys":
		if !hasKey {
			return nil, false
		}
		other := (pick + 1) % ncol
		cols += ", " + kw("primary") + " " + kw("key") + "(" + quoteIdent(c.Cols[other].Name) + ")"
	case "key-names-no-column":
		if hasKey {
			return nil, false
		}
		cols += ", " + kw("primary") + " " + kw("key") + "(nosuchcolumn)"
	case "unique":
		// UNIQUE on an added column, or on any existing column (first, key or other position)
		if c.MutArg%3 == 0 {
			cols += ", uq " + kw("unique")
		} else {
			var items []string
			sep := c.Sep
			if sep == "" {
				sep = " "
			}
			for i, col := range c.Cols {
				it := col.render(kw, sep)
				if i == pick {
					it += sep + kw("unique")
				}
				items = append(items, it)
			}
			cols = strings.Join(items, ","+sep)
			if c.TrailPK >= 0 && c.TrailPK < len(c.Cols) {
				cols += "," + sep + kw("primary") + sep + kw("key") + "(" + quoteIdent(c.Cols[c.TrailPK].Name) + ")"
			}
		}
	case "default":
		cols += ", df " + kw("default") + " 5"
	case "duplicate-column":
		cols += ", " + c.Cols[pick].render(func(s string) string { return s }, " ")
		if c.Cols[pick].PK {
			return nil, false
		}
	case "duplicate-column-case":
		// SQLite folds case for ASCII letters only ("é" and "É" are different columns)
		nm := c.Cols[pick].Name
		sw := asciiSwapCase(nm)
		if sw == nm {
			return nil, false
		}
		cols += ", " + quoteIdent(sw)
	case "text-after-quoted-value":
		// rendered below: more text in the same argument after the closing quote
	case "endpoint-without-bucket", "storage-refuses-open":
		// rendered below / by the runner: every argument parses, the open is what fails
	case "dangling-comma":
		cols += ","
	case "unbalanced-quote":
		cols += ", \"open"
	}
	var all []string
	if includeColumns {
		arg := "columns='" + strings.ReplaceAll(cols, "'", "''") + "'"
		if c.Mutation == "text-after-quoted-value" {
			// (only for columns=: the same in an option value, s3_prefix='p'q, is taken as raw
			// text by the pinned code — a tolerated leniency like the dangling comma, not demanded)
			arg += []string{" extra not null", " primary key(nosuch)", "x", " unique", " 'more'"}[c.MutArg%5]
		}
		all = append(all, arg)
	}
	if c.Mutation == "endpoint-without-bucket" {
		all = append(all, "s3_endpoint='verif://ddl'")
	} else {
		all = append(all, "s3_bucket='"+bucket+"'", "s3_endpoint='verif://ddl'")
	}
	all = append(all, opts...)
	// apply the generated order (stable for whatever is left over)
	out := make([]string, 0, len(all))
	usedIdx := map[int]bool{}
	for _, i := range c.OptOrder {
		if i < len(all) && !usedIdx[i] {
			out = append(out, all[i])
			usedIdx[i] = true
		}
	}
	for i := range all {
		if !usedIdx[i] {
			out = append(out, all[i])
		}
	}
	return out, true
}

func dropOpt(opts []string, name string) []string {
	var out []string
	for _, o := range opts {
		if !strings.HasPrefix(o, name+"=") {
			out = append(out, o)
		}
	}
	return out
}

func quoteIdent(s string) string { return "\"" + strings.ReplaceAll(s, "\"", "\"\"") + "\"" }

func tableInfo(conn *Conn, table string) (Rows, error) {
	return conn.Query("select name, \"notnull\", pk from pragma_table_info(?)", table)
}

func runDDL(c DDLCase, o *Obs) error {
	if len(c.Cols) == 0 {
		return nil
	}
	bucket, store := newBucket(nil)
	defer fakes3.Unregister(bucket)
	conn := newConn()
	defer conn.Close()
	tn := uniqName("ddl")
	args, ok := c.args(bucket)
	if !ok {
		return nil
	}
	q := "create virtual table " + tn + " using s3db(" + strings.Join(args, ", ") + ")"
	if c.Mutation == "storage-refuses-open" {
		// a definition that parses but whose table cannot be opened (the first request to the
		// bucket fails) is rejected like any other: nothing registered, nothing written
		store.Intercept = func(q *fakes3.Req) error { return fakes3.ErrInjected }
	}
	err := conn.Exec(q)
	store.Intercept = nil
	if c.Mutation != "" {
		o.Class("invalid:" + c.Mutation)
		o.NonTrivial = true
		if err == nil {
			return fmt.Errorf("%s\nwas accepted although it is invalid (%s)", q, c.Mutation)
		}
		if s3db.GetTable(tn) != nil {
			return fmt.Errorf("%s\nwas rejected (%v) but the table is still registered", q, err)
		}
		if p := putsIn(store.Log()); len(p) > 0 {
			return fmt.Errorf("%s\nwas rejected (%v) but objects were written: %v", q, err, p)
		}
		// a following valid definition of the same name succeeds
		valid := c
		valid.Mutation = ""
		vargs, _ := valid.args(bucket)
		vq := "create virtual table " + tn + " using s3db(" + strings.Join(vargs, ", ") + ")"
		if err2 := conn.Exec(vq); err2 != nil {
			return fmt.Errorf("after the rejected definition\n%s\n(%v) the valid definition\n%s\nfails: %v", q, err, vq, err2)
		}
		return nil
	}
	if err != nil {
		return fmt.Errorf("%s\nis valid but was rejected: %v", q, err)
	}
	needsQuote := false
	for _, col := range c.Cols {
		if col.Quote != "" {
			for _, qn := range quotedNames {
				if col.Name == qn {
					needsQuote = true
				}
			}
		}
	}
	if needsQuote {
		o.NonTrivial = true
		o.Class("name-needing-quotes")
	}
	// reference: a native table declared from the same specification, properly quoted
	var decl []string
	keyIdx := c.TrailPK
	for i, col := range c.Cols {
		d := quoteIdent(col.Name)
		if col.Type != "" {
			d += " " + col.Type
		}
		if col.PK {
			d += " primary key"
			keyIdx = i
		}
		if col.NotNull {
			d += " not null"
		}
		decl = append(decl, d)
	}
	nq := "create table n(" + strings.Join(decl, ", ")
	if c.TrailPK >= 0 {
		nq += ", primary key(" + quoteIdent(c.Cols[c.TrailPK].Name) + ")"
	}
	nq += ")"
	if keyIdx >= 0 {
		nq += " without rowid"
	}
	if err := conn.Exec(nq); err != nil {
		return fmt.Errorf("harness: reference table %s: %v", nq, err)
	}
	want, err := tableInfo(conn, "n")
	if err != nil {
		return err
	}
	got, err := tableInfo(conn, tn)
	if err != nil {
		return fmt.Errorf("%s\npragma table_info: %v", q, err)
	}
	if !got.Equal(want) {
		return fmt.Errorf("%s\ndeclares (name, notnull, pk)\n%sthe specification says\n%s", q, got, want)
	}
	readonly := false
	for _, a := range args {
		if a == "readonly" {
			readonly = true
		}
	}
	if readonly {
		return nil
	}
	// rows written come back under those column names; a NULL key is refused
	vals := make([]interface{}, len(c.Cols))
	for i := range vals {
		vals[i] = i + 1
	}
	ph := strings.TrimSuffix(strings.Repeat("?,", len(vals)), ",")
	if err := conn.Exec("insert into "+tn+" values ("+ph+")", vals...); err != nil {
		return fmt.Errorf("%s\nINSERT: %v", q, err)
	}
	rows, err := conn.db.Query("select * from " + tn)
	if err != nil {
		return fmt.Errorf("%s\nSELECT: %v", q, err)
	}
	names, _ := rows.Columns()
	n := 0
	for rows.Next() {
		n++
	}
	rows.Close()
	if n != 1 {
		return fmt.Errorf("%s\nholds %d rows after one INSERT", q, n)
	}
	for i, col := range c.Cols {
		if i >= len(names) || names[i] != col.Name {
			return fmt.Errorf("%s\nreturns columns %q, the specification names %q", q, names, col.Name)
		}
		// and the column can be addressed by its name
		r, err := conn.Query("select " + quoteIdent(col.Name) + " from " + tn)
		if err != nil || len(r) != 1 || r[0][0] != fmt.Sprintf("I:%d", i+1) {
			return fmt.Errorf("%s\ncolumn %q does not give the value written to it: %v (err %v)", q, col.Name, r, err)
		}
	}
	// what was written lies under the given prefix (as written, minus quotes and outer slashes)
	for _, a := range args {
		if !strings.HasPrefix(a, "s3_prefix=") {
			continue
		}
		want := strings.Trim(strings.Trim(strings.TrimPrefix(a, "s3_prefix="), "'\""), "/")
		for _, k := range store.Keys("") {
			if !strings.HasPrefix(k, want+"/s3db-rows/") {
				return fmt.Errorf("%s\nstored object %s is not under the prefix %q", q, k, want)
			}
		}
		o.Class("prefix-checked")
	}
	if keyIdx >= 0 {
		vals[keyIdx] = nil
		e := conn.Exec("insert into "+tn+" values ("+ph+")", vals...)
		if errClass(e) != "constraint-notnull" {
			return fmt.Errorf("%s\na NULL key was not refused as NOT NULL constraint: %v", q, e)
		}
	}
	return nil
}

func init() { register("TestC20_DDL", runDDL) }

func TestC20_DDL(t *testing.T) {
	st := newStats(t, "C20", "TestC20_DDL", "argument lists from a grammar of the documented surface: columns='<name> [text|varchar|integer|number|real] [primary key] [not null], ...' or a trailing primary key(<name>), names plain / single-quoted / double-quoted (spaces, keywords, non-ASCII, embedded quote), keyword case and white space varied (between tokens, before commas, before and after the list), options entries_per_node / node_cache_entries / readonly / s3_prefix (quoted or not) in any order; half of the cases carry one mutation: unknown / duplicated option, option without value, non-numeric N, missing or empty columns, composite key, two keys, key naming no column, UNIQUE, DEFAULT, duplicate column (exact and case-insensitive), unbalanced quote, more text after the closing quote of a quoted value, s3_endpoint without s3_bucket, or a valid list whose open is refused by the bucket (every request fails). Accept: pragma table_info (name, notnull, pk) equals a native table declared from the same specification with proper quoting, rows come back under those names, NULL key refused. Reject: error, table not registered, no PUT/DELETE, and the corrected definition of the same name then succeeds; non-trivial = a name that needs quoting, or any rejected list")
	checkRapid(t, st, genDDLCase, runDDL)
}

// ---------------------------------------------------------------------------
// native fuzz target: the columns parser never panics or hangs

func FuzzSchemaParser(f *testing.F) {
	for _, s := range []string{"a", "id PRIMARY KEY, name, email", "a primary key, b", "\"a b\" text not null, primary key(\"a b\")", "a,", "'it''s' integer", "a unique", "a default 5", "primary key(a,b)", "\"", "a\x00b", ",,,"} {
		f.Add(s)
	}
	f.Fuzz(func(t *testing.T, s string) {
		if len(s) > 4096 {
			return
		}
		var schema sqlTypes.Schema
		var errs []error
		p := &parse.Parser{Remaining: s}
		ok := sql.Schema(&schema, &errs)(p)
		if ok && len(errs) == 0 && parse.End()(p) {
			// accepted: names are non-nil, key (if any) is at most... nothing else to demand here
			for _, c := range schema.Columns {
				_ = c.Name
			}
		}
	})
}

func asciiSwapCase(s string) string {
	b := []byte(s)
	for i, ch := range b {
		switch {
		case ch >= 'a' && ch <= 'z':
			b[i] = ch - 32
		case ch >= 'A' && ch <= 'Z':
			b[i] = ch + 32
		}
	}
	return string(b)
}
