package checks

// C19 — independent connections can be used from different threads.
// Built with -race. One goroutine per connection, each running its own
// statement stream; verdicts: race detector silent, everybody finishes, no
// cross-talk of connection attributes or write times, every table equals its
// own stream applied sequentially.

import (
	"fmt"
	"math"
	"os"
	"runtime"
	"runtime/pprof"
	"strings"
	"sync"
	"testing"
	"time"

	"pgregory.net/rapid"

	"verif/fakes3"
)

type ThreadOp struct {
	Op    string `json:"op"` // stmt txn select refresh vacuum setwt setdl version extra memtable yield
	Stmt  *Stmt  `json:"stmt,omitempty"`
	Stmts []Stmt `json:"stmts,omitempty"`
	Tab   int    `json:"tab,omitempty"`
}

type ThreadStream struct {
	Shared bool       `json:"shared"` // its first table lives on the shared prefix (own key range)
	Two    bool       `json:"two"`    // a second, private table
	EPN    int        `json:"epn"`
	Ops    []ThreadOp `json:"ops"`
}

type ThreadCase struct {
	Procs     int            `json:"procs"`
	SharedEPN int            `json:"shared_epn"` // tables on the shared prefix use one rows-per-object setting
	Streams   []ThreadStream `json:"streams"`
}

func genThreadCase(t *rapid.T) ThreadCase {
	c := ThreadCase{Procs: rapid.SampledFrom([]int{2, 4, 16}).Draw(t, "procs"), SharedEPN: rapid.SampledFrom([]int{2, 4, 4096}).Draw(t, "sharedepn")}
	m := rapid.IntRange(2, 6).Draw(t, "m")
	for ci := 0; ci < m; ci++ {
		s := ThreadStream{Shared: rapid.Bool().Draw(t, "shared"), Two: rapid.Bool().Draw(t, "two"),
			EPN: rapid.SampledFrom([]int{2, 4, 4096}).Draw(t, "epn")}
		// own key range: 100*ci+1 .. 100*ci+6
		var keys []Val
		for k := 1; k <= 6; k++ {
			if k%2 == 0 {
				// non-integral REAL keys as well (other code paths in the key's level function)
				keys = append(keys, vReal(float64(100*ci+k)+0.5))
			} else {
				keys = append(keys, vInt(int64(100*ci+k)))
			}
		}
		cfg := stmtGenCfg{keys: keys, cols: wideCols, vals: smallVals(), multiRow: false, wIns: 5, wUpd: 3, wDel: 2}
		n := rapid.IntRange(3, 25).Draw(t, "nops")
		tm := int64(0)
		stamp := func(st *Stmt) {
			tm += 3
			st.T = int64(ci*100000) + tm // connection-specific, increasing
		}
		for i := 0; i < n; i++ {
			tab := 0
			if s.Two {
				tab = rapid.IntRange(0, 1).Draw(t, "tab")
			}
			switch r := rapid.IntRange(0, 99).Draw(t, "op"); {
			case r < 45:
				st := genStmt(t, cfg, "s")
				stamp(&st)
				s.Ops = append(s.Ops, ThreadOp{Op: "stmt", Stmt: &st, Tab: tab})
			case r < 55:
				op := ThreadOp{Op: "txn", Tab: tab}
				used := map[string]bool{}
				for j := 0; j < rapid.IntRange(1, 3).Draw(t, "ntx"); j++ {
					st := genStmt(t, cfg, "s")
					if len(st.Keys) != 1 || used[keyClassID(st.Keys[0])] {
						continue
					}
					used[keyClassID(st.Keys[0])] = true
					stamp(&st)
					op.Stmts = append(op.Stmts, st)
				}
				s.Ops = append(s.Ops, op)
			case r < 65:
				s.Ops = append(s.Ops, ThreadOp{Op: "select", Tab: tab})
			case r < 73:
				s.Ops = append(s.Ops, ThreadOp{Op: "refresh", Tab: tab})
			case r < 78:
				s.Ops = append(s.Ops, ThreadOp{Op: "vacuum", Tab: tab})
			case r < 83:
				s.Ops = append(s.Ops, ThreadOp{Op: "setdl"})
			case r < 87:
				s.Ops = append(s.Ops, ThreadOp{Op: "version", Tab: tab})
			case r < 92:
				s.Ops = append(s.Ops, ThreadOp{Op: "extra"})
			case r < 96:
				s.Ops = append(s.Ops, ThreadOp{Op: "memtable"})
			default:
				s.Ops = append(s.Ops, ThreadOp{Op: "yield"})
			}
		}
		c.Streams = append(c.Streams, s)
	}
	return c
}

type threadResult struct {
	err    error
	models []MSet // per table
	names  []string
}

func runThreads(c ThreadCase, o *Obs) error {
	if len(c.Streams) == 0 {
		return nil
	}
	if c.Procs > 0 {
		old := runtime.GOMAXPROCS(c.Procs)
		defer runtime.GOMAXPROCS(old)
	}
	bucket, _ := newBucket(nil)
	defer fakes3.Unregister(bucket)
	results := make([]threadResult, len(c.Streams))
	var wg sync.WaitGroup
	start := make(chan struct{})
	for ci := range c.Streams {
		wg.Add(1)
		go func(ci int) {
			defer wg.Done()
			defer func() {
				if r := recover(); r != nil {
					results[ci].err = fmt.Errorf("connection %d: PANIC: %v", ci, r)
				}
			}()
			<-start
			results[ci] = runStream(c, ci, bucket)
		}(ci)
	}
	close(start)
	done := make(chan struct{})
	go func() { wg.Wait(); close(done) }()
	select {
	case <-done:
	case <-time.After(300 * time.Second):
		var sb strings.Builder
		pprof.Lookup("goroutine").WriteTo(&sb, 1)
		fmt.Fprintf(os.Stderr, "WATCHDOG: connections did not finish within 300s\n%s\n", sb.String())
		return fmt.Errorf("DEADLOCK-OR-HANG: after 300 s not every connection has finished its (sub-second) workload; goroutine dump written to the log")
	}
	for ci, r := range results {
		if r.err != nil {
			return fmt.Errorf("connection %d: %v", ci, r.err)
		}
	}
	// shared prefix: a fresh open sees the union of what the sharing connections wrote
	union := MSet{}
	nshared := 0
	for ci, s := range c.Streams {
		if s.Shared {
			union.Union(results[ci].models[0])
			nshared++
		}
	}
	if nshared > 0 {
		conn := newConn()
		defer conn.Close()
		sp := TableSpec{Name: uniqName("fin"), Columns: mwCols, Bucket: bucket, Client: "final", Prefix: "shared", ReadOnly: true, EPN: c.SharedEPN}
		if err := conn.Create(sp); err != nil {
			return fmt.Errorf("final open of the shared prefix: %v", err)
		}
		got, err := conn.Dump(sp.Name)
		if err != nil {
			return fmt.Errorf("final scan of the shared prefix: %v", err)
		}
		if want := union.Rows(wideCols); !got.Equal(want) {
			return fmt.Errorf("after all connections finished, the shared table differs from the union of what each connection wrote.\ns3db:\n%smodel:\n%s", got, want)
		}
		if nshared >= 2 {
			o.Class("shared-prefix>=2-writers")
		}
	}
	o.NonTrivial = len(c.Streams) >= 3
	o.ClassN("connections", len(c.Streams))
	return nil
}

func runStream(c ThreadCase, ci int, bucket string) threadResult {
	s := c.Streams[ci]
	conn := newConn()
	defer conn.Close()
	res := threadResult{}
	fail := func(f string, a ...interface{}) threadResult {
		res.err = fmt.Errorf(f, a...)
		return res
	}
	// tables: [0] shared or private, [1] private
	var specs []TableSpec
	p0, epn0 := fmt.Sprintf("priv%d", ci), s.EPN
	if s.Shared {
		p0, epn0 = "shared", c.SharedEPN
	}
	specs = append(specs, TableSpec{Name: uniqName("th"), Columns: mwCols, Bucket: bucket, Client: fmt.Sprintf("c%d", ci), Prefix: p0, EPN: epn0})
	if s.Two {
		specs = append(specs, TableSpec{Name: uniqName("th"), Columns: mwCols, Bucket: bucket, Client: fmt.Sprintf("c%d", ci), Prefix: fmt.Sprintf("priv%db", ci), EPN: s.EPN})
	}
	for _, sp := range specs {
		if err := conn.Create(sp); err != nil {
			return fail("create %s: %v", sp.Name, err)
		}
		res.models = append(res.models, MSet{})
		res.names = append(res.names, sp.Name)
	}
	ownKey := func(cell string) bool {
		var k int
		if _, err := fmt.Sscanf(cell, "I:%d", &k); err == nil {
			return k > 100*ci && k <= 100*ci+6
		}
		var bits uint64
		if _, err := fmt.Sscanf(cell, "R:%x", &bits); err == nil {
			f := math.Float64frombits(bits)
			return f > float64(100*ci) && f <= float64(100*ci+6)+0.5
		}
		return false
	}
	myDeadline := fmt.Sprintf("209%d-01-01 00:00:00", ci)
	deadlineSet := false
	check := func(tab int, where string) error {
		got, err := conn.Dump(res.names[tab])
		if err != nil {
			return fmt.Errorf("%s: scan: %v", where, err)
		}
		var mine Rows
		for _, r := range got {
			if ownKey(r[0]) {
				mine = append(mine, r)
			} else if !(s.Shared && tab == 0) {
				return fmt.Errorf("%s: a private table shows a row of somebody else: %v", where, r)
			}
		}
		if want := res.models[tab].Rows(wideCols); !mine.Sorted().Equal(want) {
			return fmt.Errorf("%s: the connection's own rows differ from its statements applied in order.\ns3db:\n%smodel:\n%s", where, mine.Sorted(), want)
		}
		return nil
	}
	exec := func(st Stmt, tab int, where string) error {
		if !st.wellFormed() {
			return nil
		}
		if err := conn.SetWriteTime(baseTime + st.T); err != nil {
			return fmt.Errorf("%s: set write_time: %v", where, err)
		}
		outcome, added, _ := res.models[tab].Exec(st, wideCols)
		q, args := st.SQL(res.names[tab], "k")
		err := conn.Exec(q, args...)
		if cls := errClass(err); cls != outcome {
			return fmt.Errorf("%s: %s: outcome %s (%v), sequential model expects %s", where, st, cls, err, outcome)
		}
		for _, op := range added {
			res.models[tab].Add(op)
		}
		// connection attributes are this connection's own
		rows, err := conn.Query("select deadline, write_time from s3db_conn")
		if err != nil || len(rows) != 1 {
			return fmt.Errorf("%s: reading s3db_conn: %v", where, err)
		}
		wantWT := vText(timeStr(baseTime + st.T)).Cell()
		wantDL := "N"
		if deadlineSet {
			wantDL = vText(myDeadline).Cell()
		}
		if rows[0][1] != wantWT || rows[0][0] != wantDL {
			return fmt.Errorf("%s: s3db_conn shows (deadline=%s, write_time=%s), this connection set (%s, %s): cross-talk between connections", where, rows[0][0], rows[0][1], wantDL, wantWT)
		}
		return nil
	}
	for i, op := range s.Ops {
		tab := op.Tab
		if tab >= len(res.names) {
			tab = 0
		}
		where := fmt.Sprintf("op %d (%s)", i, op.Op)
		switch op.Op {
		case "stmt":
			if op.Stmt == nil {
				continue
			}
			if err := exec(*op.Stmt, tab, where); err != nil {
				return fail("%v", err)
			}
			// written cells carry this connection's write times
			es, err := goDump(res.names[tab])
			if err != nil {
				return fail("%s: tree dump: %v", where, err)
			}
			for _, e := range es {
				if !ownKey(e.Key) {
					continue
				}
				lo, hi := (baseTime+int64(ci*100000))*1e9, (baseTime+int64(ci*100000)+99999)*1e9
				for name, cv := range e.Cols {
					if cv.T < lo || cv.T > hi {
						return fail("%s: cell %s.%s of this connection's row is stamped %d, outside this connection's write times [%d,%d]: cross-talk", where, e.Key, name, cv.T, lo, hi)
					}
				}
			}
		case "txn":
			if err := conn.Exec("begin"); err != nil {
				return fail("%s: begin: %v", where, err)
			}
			for _, st := range op.Stmts {
				if err := exec(st, tab, where); err != nil {
					return fail("%v", err)
				}
			}
			if err := conn.Exec("commit"); err != nil {
				return fail("%s: commit: %v", where, err)
			}
		case "select":
			if err := check(tab, where); err != nil {
				return fail("%v", err)
			}
		case "refresh":
			if err := conn.Refresh(res.names[tab]); err != nil {
				return fail("%s: %v", where, err)
			}
			if err := check(tab, where); err != nil {
				return fail("%v", err)
			}
		case "vacuum":
			// a cutoff before every write: nothing is eligible, everything is exercised
			if err := conn.Vacuum(res.names[tab], baseTime-1000); err != nil {
				return fail("%s: %v", where, err)
			}
			if err := check(tab, where); err != nil {
				return fail("%v", err)
			}
		case "setdl":
			if err := conn.Exec("update s3db_conn set deadline=?", myDeadline); err != nil {
				return fail("%s: %v", where, err)
			}
			deadlineSet = true
		case "version":
			if _, err := conn.Version(res.names[tab]); err != nil {
				return fail("%s: %v", where, err)
			}
		case "extra":
			sp := TableSpec{Name: uniqName("ex"), Columns: "k primary key, a", Bucket: bucket, Client: fmt.Sprintf("c%d", ci), Prefix: fmt.Sprintf("extra%d", ci)}
			if err := conn.Create(sp); err != nil {
				return fail("%s: create: %v", where, err)
			}
			if err := conn.Exec("insert into "+sp.Name+" values (?,?)", i, ci); err != nil && errClass(err) == "error" {
				return fail("%s: insert: %v", where, err)
			}
			if err := conn.Drop(sp.Name); err != nil {
				return fail("%s: drop: %v", where, err)
			}
		case "memtable":
			// the built-in in-memory bucket path (process-wide, lazily created)
			sp := TableSpec{Name: uniqName("mem"), Columns: "k primary key, a", Prefix: uniqName("mem")}
			if err := conn.Create(sp); err != nil {
				return fail("%s: create on the in-memory bucket: %v", where, err)
			}
			if err := conn.Exec("insert into "+sp.Name+" values (?,?)", i, ci); err != nil {
				return fail("%s: insert: %v", where, err)
			}
			r, err := conn.Query("select a from " + sp.Name)
			if err != nil || len(r) != 1 || r[0][0] != fmt.Sprintf("I:%d", ci) {
				return fail("%s: in-memory table reads %v (err %v)", where, r, err)
			}
			if err := conn.Drop(sp.Name); err != nil {
				return fail("%s: drop: %v", where, err)
			}
		case "yield":
			runtime.Gosched()
		}
	}
	for tab := range res.names {
		if err := check(tab, "end"); err != nil {
			return fail("%v", err)
		}
	}
	return res
}

func init() { register("TestC19_Threads", runThreads) }

func TestC19_Threads(t *testing.T) {
	st := newStats(t, "C19", "TestC19_Threads", "built with the race detector: 2-6 connections, one goroutine each, GOMAXPROCS 2/4/16, each with a table on a private prefix or on a shared prefix with its own key range, optionally a second private table, running 3-25 generated operations: INSERT/UPDATE/DELETE with connection-specific explicit write times, transactions, scans, s3db_refresh, s3db_vacuum, s3db_version, deadline updates, CREATE/DROP of further tables (fake bucket and the built-in in-memory bucket); oracles: no race report, every goroutine finishes (120 s watchdog dumps goroutines), s3db_conn shows this connection's own values after every statement, written cells carry this connection's write times, every table's own rows equal the connection's statements applied sequentially (reference model), and a final fresh open of the shared prefix equals the union of the sharing connections' models; non-trivial = >=3 connections")
	st.Assume = append(st.Assume, "thread schedules are the Go scheduler's (perturbed by GOMAXPROCS and yields), not owned by the harness; the race detector only sees the schedules that happened")
	checkRapid(t, st, genThreadCase, runThreads)
}
