package checks

// C06 — a single-writer table behaves like the same table in plain SQLite.
// Differential: identical statements on an s3db table and on a native
// WITHOUT ROWID table; outcomes and results must agree.

import (
	"fmt"
	"sort"
	"strings"
	"testing"

	"github.com/jrhy/s3db"
	"pgregory.net/rapid"

	"verif/fakes3"
)

// SQLOp is one statement as text ("%T" stands for the table name) plus arguments.
type SQLOp struct {
	Kind    string `json:"kind"` // ins upd del sel begin commit reopen reconnect
	Q       string `json:"q,omitempty"`
	Args    []Val  `json:"args,omitempty"`
	Ordered bool   `json:"ordered,omitempty"` // result order is determined (ORDER BY key)
	Desc    bool   `json:"desc,omitempty"`
	Limit   bool   `json:"limit,omitempty"` // LIMIT without a determined order: compare counts + membership
	Rows    int    `json:"rows,omitempty"`  // ins: number of rows in VALUES
	// KeepTime: run under the previous statement's write_time (non-decreasing, not increasing)
	KeepTime bool `json:"keep_time,omitempty"`
}

type C06Case struct {
	Cols  []string `json:"cols"` // column names in declaration order; the key is "k"
	EPN   int      `json:"epn"`
	Cache int      `json:"cache"`
	NKeys int      `json:"nkeys"`
	Ops   []SQLOp  `json:"ops"`
	// NoSteer: do not steer away from known findings (only set in witness files;
	// generated cases never set it).
	NoSteer bool `json:"no_steer,omitempty"`
	// KeyClass: compare the key (first result column) up to SQLite equality (1 = 1.0),
	// used by C07's generator, which deletes and re-inserts equal keys in another
	// representation (known finding K5: the first representation is kept).
	KeyClass bool `json:"key_class,omitempty"`
}

// c06Keys: keys of all four classes, pairwise distinct under SQLite equality,
// numerically interleaved so that int/real comparisons matter.
func c06Keys(n int) []Val {
	base := []Val{vInt(1), vReal(1.5), vInt(2), vInt(3), vText("a"), vText("b"), vBlob([]byte{1}), vInt(-4), vReal(-0.25),
		vText("B"), vInt(1 << 40), vBlob([]byte{}), vText("é"), vReal(1e10), vBlob([]byte{0xff, 0}), vText("ab")}
	ks := append([]Val(nil), base...)
	for i := int64(4); len(ks) < n; i++ {
		if i%3 == 0 {
			ks = append(ks, vReal(float64(i)+0.5))
		} else {
			ks = append(ks, vInt(i))
		}
	}
	return ks[:n]
}

// probe values for predicates: keys of the domain plus values below, between
// and above them, and of every class.
func c06Probes(keys []Val) []Val {
	ps := append([]Val(nil), keys...)
	ps = append(ps, vInt(-1000), vInt(0), vReal(0.5), vReal(2.0), vInt(1<<50), vReal(1e300), vReal(-1e300),
		vText(""), vText("a0"), vText("zzz"), vBlob([]byte{0}), vBlob([]byte{0xff, 0xff}), vInt(1000), vReal(3.5), vNull())
	return ps
}

func genC06Case(t *rapid.T) C06Case {
	c := C06Case{
		EPN:   rapid.SampledFrom([]int{2, 2, 3, 4, 4, 8, 64, 4096}).Draw(t, "epn"),
		Cache: rapid.SampledFrom([]int{0, 0, 3, 1000}).Draw(t, "cache"),
		NKeys: rapid.SampledFrom([]int{5, 10, 20, 40}).Draw(t, "nkeys"),
	}
	nother := rapid.IntRange(0, 3).Draw(t, "nother")
	others := []string{"a", "b", "c"}[:nother]
	kpos := rapid.IntRange(0, nother).Draw(t, "kpos")
	c.Cols = append(append(append([]string{}, others[:kpos]...), "k"), others[kpos:]...)
	keys := c06Keys(c.NKeys)
	probes := c06Probes(keys)
	vals := smallVals()
	key := func(l string) Val { return rapid.SampledFrom(keys).Draw(t, l) }
	probe := func(l string) Val { return rapid.SampledFrom(probes).Draw(t, l) }

	// key predicate grammar
	genPred := func() (string, []Val) {
		var parts []string
		var args []Val
		n := rapid.IntRange(1, 3).Draw(t, "npred")
		for i := 0; i < n; i++ {
			switch rapid.IntRange(0, 9).Draw(t, "predkind") {
			case 0, 1, 2, 3, 4:
				op := rapid.SampledFrom([]string{"=", "<", "<=", ">", ">="}).Draw(t, "cmp")
				parts = append(parts, "k "+op+" ?")
				args = append(args, probe("pv"))
			case 5:
				m := rapid.IntRange(1, 4).Draw(t, "nin")
				parts = append(parts, "k in ("+strings.TrimSuffix(strings.Repeat("?,", m), ",")+")")
				for j := 0; j < m; j++ {
					args = append(args, probe("inv"))
				}
			case 6:
				parts = append(parts, "k between ? and ?")
				args = append(args, probe("lo"), probe("hi"))
			case 7:
				parts = append(parts, "? "+rapid.SampledFrom([]string{"<", "<=", ">", ">=", "="}).Draw(t, "rcmp")+" k")
				args = append(args, probe("pv"))
			default:
				if len(others) > 0 {
					col := rapid.SampledFrom(others).Draw(t, "pcol")
					if rapid.Bool().Draw(t, "isnull") {
						parts = append(parts, col+" is null")
					} else {
						parts = append(parts, col+" = ?")
						args = append(args, vals.Draw(t, "pcv"))
					}
				} else {
					parts = append(parts, "k = ?")
					args = append(args, key("pk"))
				}
			}
		}
		return strings.Join(parts, " and "), args
	}

	genInsert := func(forceRows int) SQLOp {
		rows := forceRows
		if rows == 0 {
			rows = 1
			if rapid.IntRange(0, 5).Draw(t, "multi") == 0 {
				rows = rapid.IntRange(2, 4).Draw(t, "nrows")
			}
		}
		// column list: all (no list), or a subset that includes the key (rarely omits it)
		useList := rapid.Bool().Draw(t, "collist")
		cols := c.Cols
		if useList {
			var sub []string
			for _, col := range c.Cols {
				if col == "k" {
					if rapid.IntRange(0, 19).Draw(t, "omitkey") != 0 {
						sub = append(sub, col)
					}
				} else if rapid.Bool().Draw(t, "inc") {
					sub = append(sub, col)
				}
			}
			if len(sub) == 0 {
				sub = []string{"k"}
			}
			cols = sub
		}
		op := SQLOp{Kind: "ins", Rows: rows}
		var tuples []string
		for r := 0; r < rows; r++ {
			for _, col := range cols {
				if col == "k" {
					if rapid.IntRange(0, 29).Draw(t, "nullkey") == 0 {
						op.Args = append(op.Args, vNull())
					} else {
						op.Args = append(op.Args, key("ik"))
					}
				} else {
					op.Args = append(op.Args, vals.Draw(t, "iv"))
				}
			}
			tuples = append(tuples, "("+strings.TrimSuffix(strings.Repeat("?,", len(cols)), ",")+")")
		}
		q := "insert into %T"
		if useList {
			q += "(" + strings.Join(cols, ",") + ")"
		}
		op.Q = q + " values " + strings.Join(tuples, ",")
		return op
	}

	genSelect := func() SQLOp {
		op := SQLOp{Kind: "sel"}
		where := ""
		if rapid.IntRange(0, 4).Draw(t, "haswhere") != 0 {
			w, a := genPred()
			where = " where " + w
			op.Args = a
		}
		if rapid.IntRange(0, 5).Draw(t, "agg") == 0 {
			sumcol := "k"
			if len(others) > 0 {
				sumcol = rapid.SampledFrom(others).Draw(t, "sumcol")
			}
			op.Q = fmt.Sprintf("select count(*), min(k), max(k), typeof(min(k)), total(%s), count(%s) from %%T%s", sumcol, sumcol, where)
			op.Ordered = true
			return op
		}
		op.Q = "select * from %T" + where
		switch rapid.IntRange(0, 3).Draw(t, "order") {
		case 1:
			op.Q += " order by k"
			op.Ordered = true
		case 2, 3:
			op.Q += " order by k desc"
			op.Ordered, op.Desc = true, true
		}
		if rapid.IntRange(0, 3).Draw(t, "haslimit") == 0 {
			op.Q += fmt.Sprintf(" limit %d", rapid.IntRange(0, 5).Draw(t, "limit"))
			if rapid.Bool().Draw(t, "hasoffset") {
				op.Q += fmt.Sprintf(" offset %d", rapid.IntRange(0, 4).Draw(t, "offset"))
			}
			if !op.Ordered {
				op.Limit = true
			}
		}
		return op
	}

	// optional bulk pre-fill (autocommit multi-row insert into the empty table)
	if rapid.IntRange(0, 2).Draw(t, "prefill") != 0 {
		n := rapid.IntRange(2, c.NKeys).Draw(t, "nprefill")
		idx := rapid.Permutation(seq(c.NKeys)).Draw(t, "prefillorder")[:n]
		op := SQLOp{Kind: "ins", Rows: n}
		var tuples []string
		for _, i := range idx {
			op.Args = append(op.Args, keys[i])
			tuples = append(tuples, "(?)")
		}
		op.Q = "insert into %T(k) values " + strings.Join(tuples, ",")
		c.Ops = append(c.Ops, op)
	}
	n := rapid.IntRange(1, 40).Draw(t, "nops")
	inTxn := false
	for i := 0; i < n; i++ {
		r := rapid.IntRange(0, 99).Draw(t, "op")
		switch {
		case r < 25:
			c.Ops = append(c.Ops, genInsert(0))
		case r < 37 && len(others) > 0:
			var sets []string
			var args []Val
			m := rapid.IntRange(1, len(others)).Draw(t, "nset")
			for _, col := range rapid.Permutation(others).Draw(t, "setcols")[:m] {
				sets = append(sets, col+"=?")
				args = append(args, vals.Draw(t, "uv"))
			}
			if rapid.IntRange(0, 7).Draw(t, "updsub") == 0 {
				// the new value comes from an (uncorrelated) query over the table being updated
				sets[0] = strings.TrimSuffix(sets[0], "?") + "(select " + rapid.SampledFrom([]string{"count(*)", "count(" + others[0] + ")", "max(k)", "min(k)"}).Draw(t, "subagg") + " from %T)"
				args = args[1:]
			}
			q := "update %T set " + strings.Join(sets, ",")
			if rapid.IntRange(0, 5).Draw(t, "updwhere") != 0 {
				w, a := genPred()
				q += " where " + w
				args = append(args, a...)
			}
			c.Ops = append(c.Ops, SQLOp{Kind: "upd", Q: q, Args: args})
		case r < 50:
			q := "delete from %T"
			var args []Val
			if rapid.IntRange(0, 7).Draw(t, "delwhere") != 0 {
				w, a := genPred()
				q += " where " + w
				args = a
				if rapid.IntRange(0, 5).Draw(t, "delsub") == 0 {
					// the rows to delete are named by a query over the same table
					q = "delete from %T where k in (select k from %T where " + w + ")"
				}
			}
			c.Ops = append(c.Ops, SQLOp{Kind: "del", Q: q, Args: args})
		case r < 90:
			c.Ops = append(c.Ops, genSelect())
		case r < 94:
			if !inTxn {
				c.Ops = append(c.Ops, SQLOp{Kind: "begin"})
			} else {
				c.Ops = append(c.Ops, SQLOp{Kind: "commit"})
			}
			inTxn = !inTxn
		case r < 97:
			if !inTxn {
				c.Ops = append(c.Ops, SQLOp{Kind: "reopen"})
			}
		default:
			if !inTxn {
				c.Ops = append(c.Ops, SQLOp{Kind: "reconnect"})
			}
		}
	}
	if inTxn {
		c.Ops = append(c.Ops, SQLOp{Kind: "commit"})
	}
	if len(others) > 0 && rapid.IntRange(0, 3).Draw(t, "sametime") == 0 {
		// Targeted region: a cell written, its row deleted and the key inserted again without
		// that column (or with NULL), all under ONE write time (what a transaction without an
		// explicit write_time does): the old value must not come back
		k := key("stk")
		col := rapid.SampledFrom(others).Draw(t, "stcol")
		v := vals.Draw(t, "stv")
		pat := []SQLOp{
			{Kind: "ins", Q: "insert into %T(k," + col + ") values (?,?)", Args: []Val{k, v}, Rows: 1},
			{Kind: "del", Q: "delete from %T where k = ?", Args: []Val{k}, KeepTime: true},
		}
		if rapid.Bool().Draw(t, "stexplicit") {
			pat = append(pat, SQLOp{Kind: "ins", Q: "insert into %T(k," + col + ") values (?,?)", Args: []Val{k, vNull()}, Rows: 1, KeepTime: true})
		} else {
			pat = append(pat, SQLOp{Kind: "ins", Q: "insert into %T(k) values (?)", Args: []Val{k}, Rows: 1, KeepTime: true})
		}
		pat = append(pat, SQLOp{Kind: "sel", Q: "select * from %T order by k", Ordered: true})
		// outside any transaction of the case: at the end, or before the first BEGIN
		pos := len(c.Ops)
		if rapid.Bool().Draw(t, "stfront") {
			pos = 0
		}
		c.Ops = append(append(append([]SQLOp{}, c.Ops[:pos]...), pat...), c.Ops[pos:]...)
	}
	// inside transactions, some statements run under the previous statement's write time
	// (what happens by default when the connection sets none): non-decreasing, not increasing
	in := false
	for i := range c.Ops {
		switch c.Ops[i].Kind {
		case "begin":
			in = true
		case "commit":
			in = false
		case "ins", "upd", "del":
			if in && rapid.IntRange(0, 2).Draw(t, "keeptime") == 0 {
				c.Ops[i].KeepTime = true
			}
		}
	}
	return c
}

func seq(n int) []int {
	s := make([]int, n)
	for i := range s {
		s[i] = i
	}
	return s
}

func argsOf(vs []Val) []interface{} {
	out := make([]interface{}, len(vs))
	for i, v := range vs {
		out[i] = v.Arg()
	}
	return out
}

func tableHeight(name string) int {
	vt := s3db.GetTable(name)
	if vt == nil || vt.Tree == nil {
		return -1
	}
	return vt.Tree.Root.Height()
}

func tableSize(name string) int {
	vt := s3db.GetTable(name)
	if vt == nil || vt.Tree == nil {
		return -1
	}
	return int(vt.Tree.Root.Size())
}

func runC06(c C06Case, o *Obs) error {
	bucket, _ := newBucket(nil)
	defer fakes3.Unregister(bucket)
	nat := newConn()
	defer nat.Close()
	sc := newConn()
	defer func() { sc.Close() }()

	var decl []string
	for _, col := range c.Cols {
		if col == "k" {
			decl = append(decl, "k primary key")
		} else {
			decl = append(decl, col)
		}
	}
	hasKey := false
	for _, col := range c.Cols {
		hasKey = hasKey || col == "k"
	}
	natDDL := "create table n(" + strings.Join(decl, ", ") + ")"
	if hasKey {
		natDDL += " without rowid"
	}
	if err := nat.Exec(natDDL); err != nil {
		return fmt.Errorf("native create: %v", err)
	}
	tn := uniqName("t")
	cache := c.Cache
	if !c.NoSteer {
		cache = k4Cache(c.EPN, c.NKeys, c.Cache, o)
	}
	spec := TableSpec{Name: tn, Columns: strings.Join(decl, ", "), Bucket: bucket, Client: "w", EPN: c.EPN, Cache: cache}
	if err := sc.Create(spec); err != nil {
		return fmt.Errorf("create: %v", err)
	}
	canonAt := func(r Rows, pos int) Rows {
		if !c.KeyClass {
			return r
		}
		out := make(Rows, len(r))
		for i, row := range r {
			nr := append([]string(nil), row...)
			if len(nr) > pos {
				nr[pos] = cellKeyClass(nr[pos])
			}
			out[i] = nr
		}
		return out
	}
	// generated queries name the key first; "select *" has it where it was declared
	canon := func(r Rows) Rows { return canonAt(r, 0) }
	keyPos := 0
	for i, col := range c.Cols {
		if col == "k" {
			keyPos = i
		}
	}
	wt := int64(0)
	inTxn := false
	dirtyHandle := false // a statement failed / was rolled back on this handle (K4 precondition)

	compareAll := func(where string) error {
		a, err := nat.Query("select * from n")
		if err != nil {
			return fmt.Errorf("%s: native scan: %v", where, err)
		}
		b, err := sc.Query("select * from " + tn)
		if err != nil {
			return fmt.Errorf("%s: full scan fails: %v", where, err)
		}
		a, b = canonAt(a, keyPos), canonAt(b, keyPos)
		if !a.Sorted().Equal(b.Sorted()) {
			return fmt.Errorf("%s: table contents differ.\nnative:\n%ss3db:\n%s", where, a.Sorted(), b.Sorted())
		}
		return nil
	}

	for i, op := range c.Ops {
		where := fmt.Sprintf("op %d %s %q %v", i, op.Kind, op.Q, op.Args)
		h := tableHeight(tn)
		switch op.Kind {
		case "begin":
			if err := nat.Exec("begin"); err != nil {
				return fmt.Errorf("%s: native: %v", where, err)
			}
			if err := sc.Exec("begin"); err != nil {
				return fmt.Errorf("%s: %v", where, err)
			}
			inTxn = true
		case "commit":
			if err := nat.Exec("commit"); err != nil {
				return fmt.Errorf("%s: native: %v", where, err)
			}
			if err := sc.Exec("commit"); err != nil {
				return fmt.Errorf("%s: %v", where, err)
			}
			inTxn = false
			o.Class("txn")
		case "reopen":
			if err := sc.Drop(tn); err != nil {
				return fmt.Errorf("%s: drop: %v", where, err)
			}
			if err := sc.Create(spec); err != nil {
				return fmt.Errorf("%s: re-create: %v", where, err)
			}
			dirtyHandle = false
			o.Class("reopen")
			if err := compareAll(where); err != nil {
				return err
			}
		case "reconnect":
			sc.Close()
			sc = newConn()
			if err := sc.Create(spec); err != nil {
				return fmt.Errorf("%s: re-create on a new connection: %v", where, err)
			}
			dirtyHandle = false
			o.Class("reopen")
			if err := compareAll(where); err != nil {
				return err
			}
		case "ins", "upd", "del":
			if !op.KeepTime {
				wt += 7
			}
			if err := sc.SetWriteTime(baseTime + wt); err != nil {
				return fmt.Errorf("%s: set write_time: %v", where, err)
			}
			args := argsOf(op.Args)
			nerr := nat.Exec(strings.ReplaceAll(op.Q, "%T", "n"), args...)
			ncls := errClass(nerr)
			if ncls == "error" || ncls == "constraint-other" {
				return fmt.Errorf("%s: harness bug: native refuses the statement: %v", where, nerr)
			}
			if op.Kind == "ins" && op.Rows > 1 && ncls != "ok" && !c.NoSteer {
				// A multi-row INSERT that fails part-way. Inside an explicit transaction the
				// earlier rows stay (K3); on a tree with absent child links and a shared
				// snapshot they stay even in autocommit mode (K4). Only the remaining
				// combination is compared.
				if inTxn {
					o.Exclude("K3-multirow-insert-fails-in-transaction")
					continue
				}
				if h >= 1 && (cache > 0 || dirtyHandle) {
					o.Exclude("K4-shared-node-mutated-in-place")
					continue
				}
			}
			serr := sc.Exec(strings.ReplaceAll(op.Q, "%T", tn), args...)
			scls := errClass(serr)
			if scls != ncls {
				return fmt.Errorf("%s: outcome differs: native %s (%v), s3db %s (%v)", where, ncls, nerr, scls, serr)
			}
			if scls != "ok" {
				o.Class("constraint:" + scls)
				if !inTxn {
					dirtyHandle = true
				}
			}
			if err := compareAll(where); err != nil {
				return err
			}
		case "sel":
			args := argsOf(op.Args)
			a, nerr := nat.Query(strings.ReplaceAll(op.Q, "%T", "n"), args...)
			if nerr != nil {
				return fmt.Errorf("%s: harness bug: native refuses the query: %v", where, nerr)
			}
			b, serr := sc.Query(strings.ReplaceAll(op.Q, "%T", tn), args...)
			if serr != nil {
				return fmt.Errorf("%s: query fails on s3db (height %d): %v", where, h, serr)
			}
			a, b = canon(a), canon(b)
			switch {
			case op.Limit:
				if len(a) != len(b) {
					return fmt.Errorf("%s: row count differs: native %d, s3db %d", where, len(a), len(b))
				}
			case op.Ordered:
				if !a.Equal(b) {
					return fmt.Errorf("%s: ordered result differs (height %d).\nnative:\n%ss3db:\n%s", where, h, a, b)
				}
			default:
				if !a.Sorted().Equal(b.Sorted()) {
					return fmt.Errorf("%s: result differs (height %d).\nnative:\n%ss3db:\n%s", where, h, a.Sorted(), b.Sorted())
				}
			}
			isRange := strings.Contains(op.Q, "<") || strings.Contains(op.Q, ">") || strings.Contains(op.Q, "between")
			if h >= 1 && (isRange || op.Desc) {
				o.NonTrivial = true
				o.Class("range-or-desc-on-height>=1")
				if op.Desc {
					o.Class("desc-on-height>=1")
				}
			}
			if tableSize(tn) == 0 {
				o.Class("query-on-empty-tree")
			}
			if len(a) == 0 {
				o.Class("empty-result")
			}
		}
		if h >= 2 {
			o.Class("ops-on-height>=2")
		}
	}
	return compareAll("end")
}

func sortedCopy(s []string) []string {
	o := append([]string(nil), s...)
	sort.Strings(o)
	return o
}

func init() { register("TestC06_Diff", runC06) }

func TestC06_Diff(t *testing.T) {
	st := newStats(t, "C06", "TestC06_Diff", "programs of 1-40 statements (INSERT single/multi-row with and without column lists, NULL and duplicate keys; UPDATE/DELETE with key and non-key predicates, also with (uncorrelated) subqueries over the same table as new value or as the set of keys to delete; SELECT with = < <= > >= IN BETWEEN conjunctions over probes below/inside/above the key range and of other classes, ORDER BY k [DESC], LIMIT/OFFSET, aggregates; BEGIN..COMMIT; drop/re-create; new connection) run in lock-step on an s3db table (entries_per_node 2..4096, cache 0/3/1000, 1-4 columns, key column anywhere, 5-40 keys of all classes) and on a native WITHOUT ROWID table; non-trivial = a range or descending query answered from a tree of height>=1")
	st.Assume = append(st.Assume,
		"write_time is non-decreasing: inside transactions a third of the statements run under the previous statement's write time",
		"multi-row INSERTs that fail part-way are compared only in autocommit mode on trees where known findings K3/K4 cannot trigger; the rest are counted under excluded")
	checkRapid(t, st, genC06Case, runC06)
}

// cellKeyClass maps a canonical cell to one representative per SQLite-equality class.
func cellKeyClass(cell string) string {
	if strings.HasPrefix(cell, "R:") {
		var bits uint64
		if _, err := fmt.Sscanf(cell[2:], "%x", &bits); err == nil {
			return keyClassID(Val{K: "r", F: bits})
		}
	}
	return cell
}

// ---------------------------------------------------------------------------
// tables without a PRIMARY KEY (hidden generated key): multiset semantics only

func genC06NoKeyCase(t *rapid.T) C06Case {
	c := C06Case{
		EPN:   rapid.SampledFrom([]int{2, 3, 4, 4096}).Draw(t, "epn"),
		NKeys: 4096, // rows are unbounded: keep the node cache off on multi-node trees (K4)
	}
	ncols := rapid.IntRange(1, 3).Draw(t, "ncols")
	c.Cols = []string{"a", "b", "c"}[:ncols]
	vals := rapid.SampledFrom([]Val{vNull(), vInt(0), vInt(1), vInt(2), vReal(1.5), vText("x"), vText("y"), vBlob([]byte{1})})
	pred := func() (string, []Val) {
		col := rapid.SampledFrom(c.Cols).Draw(t, "pcol")
		switch rapid.IntRange(0, 3).Draw(t, "pk") {
		case 0:
			return col + " is null", nil
		case 1:
			return col + " = ?", []Val{vals.Draw(t, "pv")}
		case 2:
			return col + " >= ?", []Val{vals.Draw(t, "pv")}
		default:
			return col + " is not null", nil
		}
	}
	n := rapid.IntRange(1, 40).Draw(t, "nops")
	for i := 0; i < n; i++ {
		switch r := rapid.IntRange(0, 99).Draw(t, "op"); {
		case r < 45:
			rows := 1
			if rapid.IntRange(0, 4).Draw(t, "multi") == 0 {
				rows = rapid.IntRange(2, 5).Draw(t, "nrows")
			}
			op := SQLOp{Kind: "ins", Rows: 1} // Rows=1: no key, so a multi-row INSERT cannot fail part-way
			var tuples []string
			for j := 0; j < rows; j++ {
				for range c.Cols {
					op.Args = append(op.Args, vals.Draw(t, "iv"))
				}
				tuples = append(tuples, "("+strings.TrimSuffix(strings.Repeat("?,", ncols), ",")+")")
			}
			op.Q = "insert into %T values " + strings.Join(tuples, ",")
			c.Ops = append(c.Ops, op)
		case r < 58:
			col := rapid.SampledFrom(c.Cols).Draw(t, "ucol")
			w, a := pred()
			c.Ops = append(c.Ops, SQLOp{Kind: "upd", Q: "update %T set " + col + "=? where " + w, Args: append([]Val{vals.Draw(t, "uv")}, a...)})
		case r < 68:
			w, a := pred()
			c.Ops = append(c.Ops, SQLOp{Kind: "del", Q: "delete from %T where " + w, Args: a})
		case r < 90:
			q := "select * from %T"
			var args []Val
			if rapid.Bool().Draw(t, "w") {
				w, a := pred()
				q += " where " + w
				args = a
			}
			if rapid.IntRange(0, 3).Draw(t, "agg") == 0 {
				q = strings.Replace(q, "select *", "select count(*), count("+c.Cols[0]+"), total("+c.Cols[0]+")", 1)
				c.Ops = append(c.Ops, SQLOp{Kind: "sel", Q: q, Args: args, Ordered: true})
			} else {
				c.Ops = append(c.Ops, SQLOp{Kind: "sel", Q: q, Args: args})
			}
		case r < 95:
			c.Ops = append(c.Ops, SQLOp{Kind: "reopen"})
		default:
			c.Ops = append(c.Ops, SQLOp{Kind: "reconnect"})
		}
	}
	return c
}

func runC06NoKey(c C06Case, o *Obs) error {
	err := runC06(c, o)
	// non-trivial here: statements ran on a multi-node tree
	o.NonTrivial = o.Classes["ops-on-height>=2"] > 0 || o.Classes["range-or-desc-on-height>=1"] > 0
	return err
}

func init() { register("TestC06_NoKey", runC06NoKey) }

func TestC06_NoKey(t *testing.T) {
	st := newStats(t, "C06", "TestC06_NoKey", "tables declared without a PRIMARY KEY (rows get a hidden generated key) with 1-3 columns, entries_per_node 2-4096: 1-40 statements (single and multi-row INSERT, UPDATE and DELETE by non-key predicates, SELECT with and without predicates, aggregates, drop/re-create, new connection) in lock-step with a native rowid table; results compared as multisets; non-trivial = statements answered from a tree of height>=2")
	checkRapid(t, st, genC06NoKeyCase, runC06NoKey)
}
