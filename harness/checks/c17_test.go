package checks

// C17 — the key-value layer keeps its documented last-write and tombstone rules.

import (
	"context"
	"encoding/json"
	"fmt"
	"sort"
	"strings"
	"testing"
	"time"

	"github.com/jrhy/mast"
	"github.com/jrhy/s3db/kv"
	crdtpub "github.com/jrhy/s3db/kv/crdt"
	"pgregory.net/rapid"

	"verif/fakes3"
)

type KVStep struct {
	Op   string `json:"op"` // set tomb commit clone reopen purge diff trace
	H    int    `json:"h"`
	H2   int    `json:"h2,omitempty"`
	Key  int    `json:"key,omitempty"`
	T    int64  `json:"t,omitempty"`
	Perm []int  `json:"perm,omitempty"`
}

type KVCase struct {
	Mode    string   `json:"mode"`  // lww callback custom
	Codec   string   `json:"codec"` // gob json
	Format  string   `json:"format"`
	BF      int      `json:"bf"`
	NH      int      `json:"nh"`
	NKeys   int      `json:"nkeys"`
	Steps   []KVStep `json:"steps"`
	NoSteer bool     `json:"no_steer,omitempty"`
}

func genKVCase(t *rapid.T) KVCase {
	c := KVCase{
		Mode:   rapid.SampledFrom([]string{"lww", "lww", "callback", "custom"}).Draw(t, "mode"),
		Codec:  rapid.SampledFrom([]string{"gob", "gob", "json"}).Draw(t, "codec"),
		Format: rapid.SampledFrom([]string{"", string(mast.V115Binary), string(mast.V1Marshaler)}).Draw(t, "format"),
		BF:     rapid.SampledFrom([]int{2, 3, 4, 4096}).Draw(t, "bf"),
		NH:     rapid.IntRange(1, 3).Draw(t, "nh"),
		NKeys:  rapid.SampledFrom([]int{2, 4, 8, 16}).Draw(t, "nkeys"),
	}
	n := rapid.IntRange(3, 45).Draw(t, "n")
	for i := 0; i < n; i++ {
		s := KVStep{H: rapid.IntRange(0, c.NH-1).Draw(t, "h"), H2: rapid.IntRange(0, c.NH-1).Draw(t, "h2"),
			Key: rapid.IntRange(1, c.NKeys).Draw(t, "key")}
		slot := rapid.IntRange(0, 50).Draw(t, "slot")
		s.T = int64(slot*1000 + i + 1) // unique, arbitrary order
		switch r := rapid.IntRange(0, 99).Draw(t, "op"); {
		case r < 40:
			s.Op = "set"
		case r < 52:
			s.Op = "tomb"
		case r < 68:
			s.Op = "commit"
		case r < 72:
			s.Op = "clone"
		case r < 84:
			s.Op = "reopen"
			s.Perm = genPerm(t, "perm")
		case r < 89:
			s.Op = "purge"
		case r < 95:
			s.Op = "diff"
		default:
			s.Op = "trace"
		}
		c.Steps = append(c.Steps, s)
	}
	if rapid.IntRange(0, 4).Draw(t, "emptypattern") == 0 {
		// Targeted region: a handle whose tree holds nothing but tombstones, purged until it is
		// EMPTY, then touched again (a second purge that removes nothing, a Diff, a Clone)
		// before the Commit; afterwards the committed state is read back through a re-open.
		h := rapid.IntRange(0, c.NH-1).Draw(t, "eh")
		var pat []KVStep
		for k := 1; k <= c.NKeys; k++ {
			pat = append(pat, KVStep{Op: "tomb", H: h, Key: k, T: int64(51*1000 + 100 + k)})
		}
		if rapid.Bool().Draw(t, "ecommit") {
			pat = append(pat, KVStep{Op: "commit", H: h})
		}
		pat = append(pat, KVStep{Op: "purge", H: h, T: 52000})
		switch rapid.IntRange(0, 3).Draw(t, "eagain") {
		case 0:
			pat = append(pat, KVStep{Op: "purge", H: h, T: rapid.SampledFrom([]int64{1, 51000, 52000, 53000}).Draw(t, "eagaint")})
		case 1:
			pat = append(pat, KVStep{Op: "clone", H: h, H2: h})
		case 2:
			pat = append(pat, KVStep{Op: "trace", H: h, Key: 1})
		}
		pat = append(pat, KVStep{Op: "commit", H: h}, KVStep{Op: "reopen", H: h, Perm: genPerm(t, "eperm")},
			KVStep{Op: "set", H: h, Key: 1, T: 53001}, KVStep{Op: "commit", H: h}, KVStep{Op: "reopen", H: h, Perm: genPerm(t, "eperm2")})
		pos := rapid.IntRange(0, len(c.Steps)).Draw(t, "epos")
		c.Steps = append(append(append([]KVStep{}, c.Steps[:pos]...), pat...), c.Steps[pos:]...)
	}
	return c
}

type kvEntry struct {
	Val  string
	T    int64 // seconds
	Tomb int64 // seconds, 0 = live
}

type kvModel map[string]kvEntry

func (m kvModel) clone() kvModel {
	n := kvModel{}
	for k, v := range m {
		n[k] = v
	}
	return n
}

func joinEntry(a, b kvEntry) kvEntry {
	switch {
	case a.Tomb != 0 && b.Tomb != 0:
		if a.Tomb <= b.Tomb {
			return a
		}
		return b
	case a.Tomb != 0:
		return a
	case b.Tomb != 0:
		return b
	case a.T >= b.T:
		return a
	}
	return b
}

func (m kvModel) join(o kvModel) {
	for k, e := range o {
		if old, ok := m[k]; ok {
			m[k] = joinEntry(old, e)
		} else {
			m[k] = e
		}
	}
}

func (m kvModel) visible() map[string]string {
	out := map[string]string{}
	for k, e := range m {
		if e.Tomb == 0 {
			out[k] = e.Val
		}
	}
	return out
}

type kvHandle struct {
	db      *kv.DB
	model   kvModel
	emptied bool // the tree was emptied by RemoveTombstones in this handle
	// family: handles made from one another by Clone share tree nodes in memory
	family int
}

type conflictCall struct{ key, v1, v2 string }

func runKV(c KVCase, o *Obs) error {
	ctx := context.Background()
	store := fakes3.New()
	client := store.Client("verif://kv")
	prefix := "kvt/"
	setPerm(store, prefix, nil)
	defer setPerm(nil, "", nil)
	var conflicts []conflictCall
	cfgFor := func() kv.Config {
		cfg := kv.Config{
			Storage:        &kv.S3BucketInfo{EndpointURL: "verif://kv", BucketName: "b", Prefix: "kvt"},
			KeysLike:       "",
			ValuesLike:     "",
			BranchFactor:   uint(c.BF),
			MastNodeFormat: c.Format,
		}
		if c.Codec == "json" {
			cfg.CustomMarshal = json.Marshal
			cfg.CustomUnmarshal = json.Unmarshal
			cfg.UnmarshalUsesRegisteredTypes = false
		}
		switch c.Mode {
		case "callback":
			cfg.OnConflictMerged = func(key, v1, v2 interface{}) error {
				conflicts = append(conflicts, conflictCall{fmt.Sprint(key), fmt.Sprint(v1), fmt.Sprint(v2)})
				return nil
			}
		case "custom":
			// a commutative, associative, idempotent join supplied by the harness: the documented one
			cfg.CustomMerge = func(_ interface{}, v1, v2 crdtpub.Value) crdtpub.Value {
				return *crdtpub.LastWriteWins(&v1, &v2)
			}
		}
		return cfg
	}
	pub := map[string]kvModel{}
	allSets := map[string]map[string]bool{} // key -> "t|value" ever passed to Set
	allTombs := map[string]map[int64]bool{} // key -> times passed to Tombstone
	now := int64(100000)
	families := 0
	openHandle := func(perm []int) (*kvHandle, []string, error) {
		names := trimAll(store.Keys(prefix+"root/current/"), prefix+"root/current/")
		m := kvModel{}
		for _, n := range names {
			p, ok := pub[n]
			if !ok {
				return nil, nil, fmt.Errorf("harness bug: version %s not recorded", n)
			}
			m.join(p)
		}
		setPerm(store, prefix, perm)
		now++
		db, err := kv.Open(ctx, client, cfgFor(), kv.OpenOptions{}, time.Unix(now, 0))
		setPerm(store, prefix, nil)
		if err != nil {
			return nil, nil, err
		}
		roots, _ := db.Roots()
		for _, r := range roots {
			pub[r] = m.clone()
		}
		families++
		return &kvHandle{db: db, model: m, family: families}, names, nil
	}
	var hs []*kvHandle
	defer func() {
		for _, h := range hs {
			if h != nil && h.db != nil {
				h.db.Cancel()
			}
		}
	}()
	for i := 0; i < c.NH; i++ {
		h, _, err := openHandle(nil)
		if err != nil {
			return fmt.Errorf("open handle %d: %v", i, err)
		}
		hs = append(hs, h)
	}
	keyName := func(k int) string { return fmt.Sprintf("k%02d", k) }

	check := func(h *kvHandle, where string) error {
		vis := h.model.visible()
		for k := 1; k <= c.NKeys; k++ {
			kn := keyName(k)
			var v string
			ok, err := h.db.Get(ctx, kn, &v)
			if err != nil {
				return fmt.Errorf("%s: Get(%s): %v", where, kn, err)
			}
			want, live := vis[kn]
			if ok != live || (ok && v != want) {
				return fmt.Errorf("%s: Get(%s) = (%q,%v), model says (%q,%v)", where, kn, v, ok, want, live)
			}
			// the other form of Get: the entry with its metadata (what the SQL layer uses)
			var cv crdtpub.Value
			ok2, err := h.db.Get(ctx, kn, &cv)
			if err != nil {
				return fmt.Errorf("%s: Get(%s) into a crdt.Value: %v", where, kn, err)
			}
			if ok2 != live {
				return fmt.Errorf("%s: Get(%s) into a crdt.Value reports present=%v, Get into a string %v, model %v (entry %+v)", where, kn, ok2, ok, live, h.model[kn])
			}
			if ok2 {
				if fmt.Sprint(cv.Value) != want || cv.TombstoneSinceEpochNanos != 0 || cv.ModEpochNanos != h.model[kn].T*1e9 {
					return fmt.Errorf("%s: Get(%s) into a crdt.Value = {%v mod=%d tomb=%d}, model entry %+v", where, kn, cv.Value, cv.ModEpochNanos, cv.TombstoneSinceEpochNanos, h.model[kn])
				}
			}
			ts, err := h.db.IsTombstoned(ctx, kn)
			if err != nil {
				return fmt.Errorf("%s: IsTombstoned(%s): %v", where, kn, err)
			}
			if e, has := h.model[kn]; ts != (has && e.Tomb != 0) {
				return fmt.Errorf("%s: IsTombstoned(%s) = %v, model entry %+v", where, kn, ts, e)
			}
		}
		if int(h.db.Size()) != len(h.model) {
			return fmt.Errorf("%s: Size() = %d, model holds %d entries and tombstones", where, h.db.Size(), len(h.model))
		}
		// cursor scan: all entries incl. tombstones, in key order
		var got []string
		if h.db.Size() > 0 {
			cur, err := h.db.Cursor(ctx)
			if err != nil {
				return fmt.Errorf("%s: cursor: %v", where, err)
			}
			if err := cur.Min(ctx); err != nil {
				return fmt.Errorf("%s: cursor min: %v", where, err)
			}
			for {
				k, v, ok := cur.Get()
				if !ok {
					break
				}
				if v.Tombstoned() {
					got = append(got, fmt.Sprintf("%v=<tomb@%d>", k, v.TombstoneSinceEpochNanos/1e9))
				} else {
					got = append(got, fmt.Sprintf("%v=%v@%d", k, v.Value, v.ModEpochNanos/1e9))
				}
				if err := cur.Forward(ctx); err != nil {
					return fmt.Errorf("%s: cursor forward: %v", where, err)
				}
			}
		}
		var want []string
		for k, e := range h.model {
			if e.Tomb != 0 {
				want = append(want, fmt.Sprintf("%s=<tomb@%d>", k, e.Tomb))
			} else {
				want = append(want, fmt.Sprintf("%s=%s@%d", k, e.Val, e.T))
			}
		}
		sort.Strings(want)
		if strings.Join(got, " ") != strings.Join(want, " ") {
			return fmt.Errorf("%s: cursor scan differs from the model.\nkv:    %v\nmodel: %v", where, got, want)
		}
		return nil
	}

	merges := 0
	for i, s := range c.Steps {
		if s.H >= len(hs) {
			s.H = 0
		}
		if s.H2 >= len(hs) {
			s.H2 = 0
		}
		h := hs[s.H]
		where := fmt.Sprintf("step %d (%s h%d)", i, s.Op, s.H)
		kn := keyName(s.Key)
		if (s.Op == "set" || s.Op == "tomb" || s.Op == "purge") && c.BF < 4096 && !c.NoSteer {
			// K4 steer: on multi-node trees the dependency creates a missing child link in place
			// in a node that a clone shares with its origin, so a write through one of them shows
			// in the other (confirmed with the patched dependency; witness kept). While a handle
			// has a live relative by Clone, writes through it are left out on multi-node trees.
			related := 0
			for _, oh := range hs {
				if oh.family == h.family {
					related++
				}
			}
			if related > 1 {
				o.Exclude("K4-write-through-a-handle-with-a-live-clone-on-a-multi-node-tree")
				continue
			}
		}
		// what the other handles report as their versions must not move under a step of this one
		rootsBefore := map[int]string{}
		for j, oh := range hs {
			if r, err := oh.db.Roots(); err == nil {
				rootsBefore[j] = strings.Join(r, ",")
			}
		}
		switch s.Op {
		case "set":
			val := fmt.Sprintf("v%d", s.T)
			if err := h.db.Set(ctx, time.Unix(s.T, 0), kn, val); err != nil {
				return fmt.Errorf("%s: %v", where, err)
			}
			e := kvEntry{Val: val, T: s.T}
			if old, ok := h.model[kn]; ok {
				if old.Tomb == 0 && old.T > s.T {
					o.Class("set-older-than-stored")
				}
				e = joinEntry(old, e)
			}
			h.model[kn] = e
			if allSets[kn] == nil {
				allSets[kn] = map[string]bool{}
			}
			allSets[kn][fmt.Sprintf("%d|%s", s.T, val)] = true
		case "tomb":
			if err := h.db.Tombstone(ctx, time.Unix(s.T, 0), kn); err != nil {
				return fmt.Errorf("%s: %v", where, err)
			}
			if allTombs[kn] == nil {
				allTombs[kn] = map[int64]bool{}
			}
			allTombs[kn][s.T] = true
			e := kvEntry{T: s.T, Tomb: s.T}
			if old, ok := h.model[kn]; ok {
				if old.Tomb == 0 && old.T > s.T {
					o.Class("tombstone-older-than-value")
				}
				e = joinEntry(old, e)
			}
			h.model[kn] = e
		case "commit":
			name, err := h.db.Commit(ctx)
			if err != nil {
				return fmt.Errorf("%s: %v", where, err)
			}
			if name != nil {
				pub[*name] = h.model.clone()
			}
		case "clone":
			cl, err := h.db.Clone(ctx)
			if err != nil {
				return fmt.Errorf("%s: %v", where, err)
			}
			if s.H2 != s.H {
				o.Class("clone-replaced-a-handle")
				hs[s.H2].db.Cancel()
				hs[s.H2] = &kvHandle{db: cl, model: h.model.clone(), emptied: h.emptied, family: h.family}
			} else {
				cl.Cancel()
			}
		case "reopen":
			conflicts = nil
			nh, names, err := openHandle(s.Perm)
			if err != nil {
				return fmt.Errorf("%s: open: %v", where, err)
			}
			h.db.Cancel()
			hs[s.H] = nh
			h = nh
			if len(names) >= 2 {
				merges++
				o.Class("reopen-merging>=2")
			}
			if c.Mode == "callback" {
				// every invocation concerns a key that two of the merged versions hold with
				// different live values, and reports two such values
				for _, cc := range conflicts {
					if cc.v1 == cc.v2 {
						return fmt.Errorf("%s: OnConflictMerged(%s, %s, %s) called with equal values", where, cc.key, cc.v1, cc.v2)
					}
					held := map[string]bool{}
					for _, n := range names {
						if e, ok := pub[n][cc.key]; ok && e.Tomb == 0 {
							held[e.Val] = true
						}
					}
					// intermediate merge results are values of some version too (a join picks one side)
					if !held[cc.v1] || !held[cc.v2] {
						return fmt.Errorf("%s: OnConflictMerged(%s, %s, %s): the merged versions hold live values %v for that key", where, cc.key, cc.v1, cc.v2, held)
					}
					o.Class("conflict-callback")
				}
			}
		case "purge":
			if err := h.db.RemoveTombstones(ctx, time.Unix(s.T, 0)); err != nil {
				return fmt.Errorf("%s: %v", where, err)
			}
			removed := 0
			for k, e := range h.model {
				if e.Tomb != 0 && e.Tomb < s.T {
					delete(h.model, k)
					removed++
					o.Class("purged-tombstone")
				}
			}
			if removed > 0 && len(h.model) == 0 {
				h.emptied = true
			}
		case "diff":
			h2 := hs[s.H2]
			if ((h.emptied && h.db.Size() == 0) || (h2.emptied && h2.db.Size() == 0)) && !c.NoSteer {
				// known finding K7: Diff fails on an in-memory tree whose last entries were
				// removed by RemoveTombstones (never-written and re-opened empty trees are fine)
				o.Exclude("K7-diff-with-tree-emptied-by-purge")
				continue
			}
			got := map[string][2]string{}
			err := h.db.Diff(ctx, h2.db, func(key, mine, from interface{}) (bool, error) {
				k := fmt.Sprint(key)
				if _, dup := got[k]; dup {
					return false, fmt.Errorf("key %s reported twice", k)
				}
				got[k] = [2]string{fmt.Sprint(mine), fmt.Sprint(from)}
				return true, nil
			})
			if err != nil {
				return fmt.Errorf("%s: Diff: %v", where, err)
			}
			a, b := h.model.visible(), h2.model.visible()
			want := map[string][2]string{}
			for k := 1; k <= c.NKeys; k++ {
				n := keyName(k)
				va, oka := a[n]
				vb, okb := b[n]
				if oka != okb || va != vb {
					x, y := "<nil>", "<nil>"
					if oka {
						x = va
					}
					if okb {
						y = vb
					}
					want[n] = [2]string{x, y}
				}
			}
			if fmt.Sprint(got) != fmt.Sprint(want) {
				return fmt.Errorf("%s: Diff(h%d from h%d) reports %v, the visible values differ in %v", where, s.H, s.H2, got, want)
			}
			o.Class("diff")
		case "trace":
			e, ok := h.model[kn]
			if !ok {
				continue
			}
			var times []int64
			first := true
			err := h.db.TraceHistory(ctx, kn, time.Time{}, func(when time.Time, value interface{}) (bool, error) {
				v := fmt.Sprint(value)
				if first && e.Tomb != 0 {
					// a tombstoned key: whatever is yielded starts at the tombstone that is kept
					if !(value == nil || v == "") || when.Unix() != e.Tomb {
						return false, fmt.Errorf("history of a tombstoned key starts at (%d,%#v), the kept tombstone is at %d", when.Unix(), value, e.Tomb)
					}
					first = false
					times = append(times, when.Unix())
					return true, nil
				}
				if first {
					if v != e.Val {
						return false, fmt.Errorf("history starts at %s, the current value is %s", v, e.Val)
					}
				}
				wasFirst := first
				first = false
				_ = wasFirst
				if value == nil || (v == "" && allTombs[kn][when.Unix()]) {
					// a tombstone that was committed for the key shows up as (its time, nil), or
					// as the zero value of the value type ("" for strings; values Set by the
					// generator are never empty)
					if !first && allTombs[kn][when.Unix()] {
						times = append(times, when.Unix())
						return true, nil
					}
					return false, fmt.Errorf("history yields (%d, nil) but no Tombstone was issued for that key at that time", when.Unix())
				}
				if !allSets[kn][fmt.Sprintf("%d|%s", when.Unix(), v)] {
					return false, fmt.Errorf("history yields (%d,%s), which was never Set for that key", when.Unix(), v)
				}
				times = append(times, when.Unix())
				return true, nil
			})
			if err != nil {
				return fmt.Errorf("%s: TraceHistory(%s): %v", where, kn, err)
			}
			if len(times) == 0 && e.Tomb == 0 {
				return fmt.Errorf("%s: TraceHistory(%s) yields nothing although the key is live", where, kn)
			}
			if e.Tomb != 0 {
				o.Class("trace-of-tombstoned-key")
			}
			for j := 1; j < len(times); j++ {
				if times[j] >= times[j-1] {
					return fmt.Errorf("%s: TraceHistory(%s) times are not strictly decreasing: %v", where, kn, times)
				}
			}
			o.Class("trace")
		}
		if err := check(hs[s.H], where); err != nil {
			return err
		}
		// the other handles are untouched by this step: same content, same versions
		for j, oh := range hs {
			if j == s.H || (s.Op == "clone" && j == s.H2) {
				continue
			}
			if err := check(oh, fmt.Sprintf("%s: handle %d, which did not take part in the step", where, j)); err != nil {
				return err
			}
			if before, ok := rootsBefore[j]; ok {
				r, err := oh.db.Roots()
				if err != nil {
					return fmt.Errorf("%s: Roots() of handle %d, which did not take part in the step: %v", where, j, err)
				}
				if strings.Join(r, ",") != before {
					return fmt.Errorf("%s: Roots() of handle %d, which did not take part in the step, went from [%s] to %v", where, j, before, r)
				}
				if s.Op == "commit" {
					o.Class("other-handle-roots-checked-across-commit")
				}
			}
		}
	}
	if merges > 0 && (o.Classes["set-older-than-stored"] > 0 || o.Classes["tombstone-older-than-value"] > 0) {
		o.NonTrivial = true
	}
	return nil
}

func init() { register("TestC17_KV", runKV) }

func TestC17_KV(t *testing.T) {
	st := newStats(t, "C17", "TestC17_KV", "state machine directly on kv.DB over the fake store: 1-3 handles, 3-45 steps of Set/Tombstone(key, time) with unique times in arbitrary order, Commit, Clone, Reopen (merges all current versions in a generated order through the permutation hook), RemoveTombstones(before), Diff(handle, handle), TraceHistory(key); modes default / OnConflictMerged callback / CustomMerge (the documented join supplied by the harness); gob and JSON node codecs, three node formats, branch factor 2-4096; a fifth of the cases contain a tree purged until it is empty and touched again before the Commit; after every step Get (into a plain value and into a crdt.Value with its metadata), IsTombstoned, Size and a full cursor scan (values, times, tombstones) of every handle, also those that did not take part in the step, must equal a map model (later time wins, a tombstone beats every value, the earliest tombstone is kept, purge forgets); Diff must report exactly the keys whose visible value differs, once, with both values; TraceHistory must start at the current value, yield only (time,value) pairs that were Set, in strictly decreasing time; the callback must only see two different live values held by the merged versions; non-trivial = a merge of >=2 versions after a write older than what was stored")
	st.Assume = append(st.Assume, "the gob version-object format (kv_version 0) is only read, never written, by this code and its type lives in an internal package: not reachable from the harness module")
	checkRapid(t, st, genKVCase, runKV)
}

// C11 at the kv level: what a handle reports as its versions (kv.DB.Roots, which s3db_version
// prints) belongs to that handle. The state machine above with more Clone and Commit steps;
// the invariant "a step of one handle moves neither the content nor the Roots() of another"
// is checked by runKV after every step.
func genKVHandlesCase(t *rapid.T) KVCase {
	c := genKVCase(t)
	if c.NH < 2 {
		c.NH = 2
	}
	for i := range c.Steps {
		if c.Steps[i].Op == "diff" || c.Steps[i].Op == "trace" || c.Steps[i].Op == "purge" {
			c.Steps[i].Op = rapid.SampledFrom([]string{"clone", "commit", "commit"}).Draw(t, "hop")
			c.Steps[i].H2 = rapid.IntRange(0, c.NH-1).Draw(t, "hh2")
		}
	}
	return c
}

func runKVHandles(c KVCase, o *Obs) error {
	err := runKV(c, o)
	o.NonTrivial = o.Classes["other-handle-roots-checked-across-commit"] > 0 && o.Classes["clone-replaced-a-handle"] > 0
	return err
}

func init() { register("TestC11_KVHandles", runKVHandles) }

func TestC11_KVHandles(t *testing.T) {
	st := newStats(t, "C11", "TestC11_KVHandles", "the kv state machine of C17 (1-3 handles; Set, Tombstone, Commit, Clone into another handle slot, Reopen) with a third of the steps Clone or Commit: after every step every handle that did not take part in it must still show its own content (Get, Size, full scan against its model) and report the same Roots() as before (the names s3db_version prints): a clone, such as the snapshot a transaction returns to on ROLLBACK, keeps naming the versions it was made from whatever its origin commits afterwards; non-trivial = a clone that replaced a handle and a commit on another handle checked afterwards")
	checkRapid(t, st, genKVHandlesCase, runKVHandles)
}
