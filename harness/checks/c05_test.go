package checks

// C05 — transactions are atomic and isolated: rollback restores, nothing leaks early.

import (
	"os"
	"fmt"
	"sort"
	"strings"
	"testing"

	"pgregory.net/rapid"

	"verif/fakes3"
)

type C05Step struct {
	Op       string `json:"op"` // auto txn observe createtxn
	Stmts    []Stmt `json:"stmts,omitempty"`
	Implicit bool   `json:"implicit,omitempty"` // no write_time set: the transaction's own time
	End      string `json:"end,omitempty"`      // commit rollback failcommit
	FailAt   int    `json:"fail_at,omitempty"`  // failcommit: index of the first failing mutating request
	NullKey  bool   `json:"null_key,omitempty"` // add an INSERT with a NULL key (must fail) in the middle
	// Second > 0: after statement number Second (1-based) the transaction also inserts a row
	// into a second s3db table of the same connection (its first write there: the table joins
	// the running transaction). Not combined with a failing COMMIT (atomicity across tables is
	// not part of the property).
	Second int `json:"second,omitempty"`
	// Maint: "refresh" or "vacuum": after statement number MaintAt (0 = right after BEGIN) the
	// connection calls s3db_refresh / s3db_vacuum (cutoff older than every write: nothing to
	// purge) on the table in the middle of the transaction. The call may be refused or may
	// succeed; either way everything the property promises about the transaction still holds.
	Maint   string `json:"maint,omitempty"`
	MaintAt int    `json:"maint_at,omitempty"`
	// MaintFar: the vacuum uses the year-2100 cutoff (everything purgeable is purged, every
	// superseded version deleted) instead of a cutoff older than every write
	MaintFar bool `json:"maint_far,omitempty"`
	// createtxn: BEGIN; CREATE VIRTUAL TABLE (own prefix); NRows single-row INSERTs (with the
	// maintenance call after MaintAt of them); COMMIT or ROLLBACK. SQLite does not call the
	// module's begin callback for a table created inside the running transaction.
	NRows int `json:"nrows,omitempty"`
}

type C05Case struct {
	EPN     int       `json:"epn"`
	NKeys   int       `json:"nkeys"`
	Prefill int       `json:"prefill"`
	Steps   []C05Step `json:"steps"`
	NoSteer bool      `json:"no_steer,omitempty"`
	// NoSteerK4: keep going after a rollback without the refresh that avoids K4
	NoSteerK4 bool `json:"no_steer_k4,omitempty"`
	// Deadline: the writer's connection has a deadline set (far in the future) all along:
	// it must not change anything, in particular not the transaction's single write time
	Deadline bool `json:"deadline,omitempty"`
}

func genC05Case(t *rapid.T) C05Case {
	c := C05Case{
		EPN:   rapid.SampledFrom([]int{2, 3, 4, 4096, 4096}).Draw(t, "epn"),
		NKeys: rapid.SampledFrom([]int{4, 8, 16, 30}).Draw(t, "nkeys"),
	}
	c.Prefill = rapid.IntRange(0, c.NKeys).Draw(t, "prefill")
	c.Deadline = rapid.IntRange(0, 2).Draw(t, "deadline") == 0
	// only for producing witnesses of known findings by hand
	c.NoSteer = envStr("VERIF_NOSTEER", "") == "all"
	c.NoSteerK4 = envStr("VERIF_NOSTEER", "") == "k4"
	keys := intKeys(c.NKeys)
	cfg := stmtGenCfg{keys: keys, cols: wideCols, vals: smallVals(), multiRow: true, wIns: 5, wUpd: 3, wDel: 3}
	single := cfg
	single.multiRow = false
	n := rapid.IntRange(1, 14).Draw(t, "nsteps")
	for i := 0; i < n; i++ {
		switch r := rapid.IntRange(0, 9).Draw(t, "op"); {
		case r < 2:
			c.Steps = append(c.Steps, C05Step{Op: "auto", Stmts: []Stmt{genStmt(t, cfg, "a")}})
		case r < 3:
			if rapid.Bool().Draw(t, "createtxn") {
				st := C05Step{Op: "createtxn", NRows: rapid.IntRange(1, 4).Draw(t, "cnrows"), End: rapid.SampledFrom([]string{"commit", "commit", "rollback"}).Draw(t, "cend")}
				if rapid.Bool().Draw(t, "cmaint") {
					st.Maint = rapid.SampledFrom([]string{"refresh", "vacuum"}).Draw(t, "cmaintkind")
					st.MaintAt = rapid.IntRange(0, st.NRows).Draw(t, "cmaintat")
				}
				c.Steps = append(c.Steps, st)
				break
			}
			c.Steps = append(c.Steps, C05Step{Op: "observe"})
		default:
			st := C05Step{Op: "txn", Implicit: rapid.IntRange(0, 2).Draw(t, "implicit") == 0,
				End:     rapid.SampledFrom([]string{"commit", "commit", "rollback", "rollback", "failcommit"}).Draw(t, "end"),
				FailAt:  rapid.IntRange(0, 6).Draw(t, "failat"),
				NullKey: rapid.IntRange(0, 5).Draw(t, "nullkey") == 0}
			k := rapid.IntRange(0, 5).Draw(t, "nstmts")
			used := map[string]bool{}
			if k > 0 && st.End != "failcommit" && rapid.IntRange(0, 2).Draw(t, "second") == 0 {
				st.Second = rapid.IntRange(1, k).Draw(t, "secondat")
			}
			if rapid.IntRange(0, 3).Draw(t, "maint") == 0 {
				st.Maint = rapid.SampledFrom([]string{"refresh", "vacuum"}).Draw(t, "maintkind")
				st.MaintAt = rapid.IntRange(0, k).Draw(t, "maintat")
				st.MaintFar = rapid.Bool().Draw(t, "maintfar")
			}
			for j := 0; j < k; j++ {
				var s Stmt
				// (with one write time for the whole transaction several statements may well
				// write the same cell: the later statement counts)
				s = genStmt(t, cfg, "s")
				_ = used
				st.Stmts = append(st.Stmts, s)
			}
			c.Steps = append(c.Steps, st)
		}
	}
	return c
}

// versionObjects: distinct version names present in the bucket (a version being
// retired can be under root/current/ and root/merged/ at once).
func versionObjects(st *fakes3.Store, prefix string) []string {
	set := map[string]bool{}
	for _, n := range currentVersions(st, prefix) {
		set[n] = true
	}
	for _, n := range mergedVersions(st, prefix) {
		set[n] = true
	}
	var v []string
	for n := range set {
		v = append(v, n)
	}
	sort.Strings(v)
	return v
}

func runC05(c C05Case, o *Obs) error {
	bucket, store := newBucket(nil)
	defer fakes3.Unregister(bucket)
	prefix := tablePrefix("")
	conn := newConn()
	defer conn.Close()
	tn := uniqName("t")
	spec := TableSpec{Name: tn, Columns: mwCols, Bucket: bucket, Client: "w", EPN: c.EPN}
	if err := conn.Create(spec); err != nil {
		return err
	}
	obs := newConn()
	defer obs.Close()
	on := uniqName("o")
	ospec := spec
	ospec.Name, ospec.Client, ospec.ReadOnly = on, "obs", true
	if err := obs.Create(ospec); err != nil {
		return err
	}
	// a second s3db table on the writer's connection (own prefix), for transactions that span two tables
	t2 := ""
	t2Committed := map[int64]bool{}
	t2Next := int64(0)
	for _, st := range c.Steps {
		if st.Second > 0 && t2 == "" {
			t2 = uniqName("t2")
			sp2 := TableSpec{Name: t2, Columns: "k primary key, a", Bucket: bucket, Client: "w", Prefix: "second"}
			if err := conn.Create(sp2); err != nil {
				return fmt.Errorf("create second table: %v", err)
			}
		}
	}
	t2Rows := func() (map[int64]bool, error) {
		rows, err := conn.Query("select k from " + t2)
		if err != nil {
			return nil, err
		}
		m := map[int64]bool{}
		for _, r := range rows {
			var k int64
			fmt.Sscanf(r[0], "I:%d", &k)
			m[k] = true
		}
		return m, nil
	}
	if c.Deadline {
		if err := conn.Exec("update s3db_conn set deadline='2099-01-01 00:00:00'"); err != nil {
			return fmt.Errorf("set deadline: %v", err)
		}
		o.Class("connection-with-deadline")
	}
	view := MSet{}      // the writer's state (incl. uncommitted)
	committed := MSet{} // what has been committed
	wt := int64(0)      // explicit write times: increasing
	implicitN := 0
	keys := intKeys(c.NKeys)
	dirtyHandle := false
	everSeen := map[string]bool{} // version names ever stored before the transaction under test
	seenUpTo := 0
	noteSeen := func() {
		for _, q := range store.LogSince(seenUpTo) {
			if q.Op == "PUT" && strings.Contains(q.Key, "/root/") {
				everSeen[q.Key[strings.LastIndex(q.Key, "/")+1:]] = true
			}
		}
		seenUpTo = store.LogLen()
	}

	if c.Prefill > 0 {
		s := Stmt{Kind: "ins", Cols: []string{"a"}, T: 1}
		for i := 0; i < c.Prefill; i++ {
			s.Keys = append(s.Keys, keys[i])
			s.Vals = append(s.Vals, []Val{vInt(int64(i % 3))})
		}
		if err := conn.SetWriteTime(baseTime + 1); err != nil {
			return err
		}
		q, args := s.SQL(tn, "k")
		if err := conn.Exec(q, args...); err != nil {
			return fmt.Errorf("prefill: %v", err)
		}
		_, added, _ := view.Exec(s, wideCols)
		for _, op := range added {
			view.Add(op)
		}
		committed = view.Clone()
	}
	wt = 10

	checkRows := func(where string) error {
		got, err := conn.Dump(tn)
		if err != nil {
			return fmt.Errorf("%s: scan: %v", where, err)
		}
		if want := view.Rows(wideCols); !got.Equal(want) {
			return fmt.Errorf("%s: the connection does not read its own state.\ns3db:\n%smodel:\n%s", where, got, want)
		}
		return nil
	}
	checkObserver := func(where string) error {
		if err := obs.Refresh(on); err != nil {
			return fmt.Errorf("%s: observer refresh: %v", where, err)
		}
		got, err := obs.Dump(on)
		if err != nil {
			return fmt.Errorf("%s: observer scan: %v", where, err)
		}
		if want := committed.Rows(wideCols); !got.Equal(want) {
			return fmt.Errorf("%s: another connection sees rows that are not the committed ones (early leak or lost commit).\nobserver:\n%scommitted:\n%s", where, got, want)
		}
		return nil
	}
	// exec runs one statement against the model view; tm is its model time
	exec := func(s Stmt, tm int64, inTxn bool, where string) (skipped bool, err error) {
		s.T = tm
		outcome, added, _ := view.Exec(s, wideCols)
		if outcome != "ok" && len(s.Keys) > 1 && !c.NoSteer {
			if inTxn {
				o.Exclude("K3-multirow-insert-fails-in-transaction")
				return true, nil
			}
			if c.EPN < 4096 {
				o.Exclude("K4-failing-multirow-insert-on-multi-node-tree")
				return true, nil
			}
		}
		q, args := s.SQL(tn, "k")
		e := conn.Exec(q, args...)
		cls := errClass(e)
		if os.Getenv("VERIF_TRACE") != "" {
			es, _ := goDump(tn)
			fmt.Fprintf(os.Stderr, "  %s: %s -> %v\n%s", where, s, e, goDumpString(es, false))
		}
		if cls == "error" {
			return false, fmt.Errorf("%s: %s fails: %v", where, s, e)
		}
		if cls != outcome {
			return false, fmt.Errorf("%s: %s: outcome %s, model expects %s", where, s, cls, outcome)
		}
		if cls != "ok" {
			o.Class("failing-statement")
			if !inTxn {
				dirtyHandle = true
			}
		}
		for _, op := range added {
			view.Add(op)
		}
		return false, nil
	}
	// K4 steer: a handle that went through a rollback shares tree nodes with its next
	// BEGIN snapshot; on multi-node trees the dependency then mutates them in place.
	steer := func() error {
		if dirtyHandle && c.EPN < 4096 && !c.NoSteer && !c.NoSteerK4 {
			o.Exclude("K4-refresh-after-rollback-on-multi-node-tree")
			if err := conn.Refresh(tn); err != nil {
				return fmt.Errorf("refresh: %v", err)
			}
		}
		dirtyHandle = false
		return nil
	}

	for i, st := range c.Steps {
		where := fmt.Sprintf("step %d (%s %s)", i, st.Op, st.End)
		switch st.Op {
		case "observe":
			if err := checkObserver(where); err != nil {
				return err
			}
		case "createtxn":
			ip := fmt.Sprintf("inner%d", i)
			isp := TableSpec{Name: uniqName("ti"), Columns: "k primary key, a", Bucket: bucket, Client: "w", Prefix: ip, EPN: c.EPN}
			if err := conn.Exec("begin"); err != nil {
				return fmt.Errorf("%s: begin: %v", where, err)
			}
			if err := conn.Create(isp); err != nil {
				return fmt.Errorf("%s: CREATE VIRTUAL TABLE inside the transaction: %v", where, err)
			}
			imaint := func(at int) error {
				if st.Maint == "" || st.MaintAt != at {
					return nil
				}
				var e error
				if st.Maint == "refresh" {
					e = conn.Refresh(isp.Name)
				} else {
					e = conn.Vacuum(isp.Name, baseTime-1000)
				}
				o.Class(fmt.Sprintf("createtxn-%s-inside(refused=%v)", st.Maint, e != nil))
				rows, err := conn.Query("select k from " + isp.Name)
				if err != nil || len(rows) != at {
					return fmt.Errorf("%s: after s3db_%s in the middle of the transaction (result: %v) the connection reads %d of the %d rows it has inserted into the table it created in this transaction (err %v)", where, st.Maint, e, len(rows), at, err)
				}
				return nil
			}
			if err := imaint(0); err != nil {
				return err
			}
			for j := 1; j <= st.NRows; j++ {
				if err := conn.Exec("insert into "+isp.Name+"(k,a) values (?,?)", j, j); err != nil {
					return fmt.Errorf("%s: insert %d: %v", where, j, err)
				}
				if err := imaint(j); err != nil {
					return err
				}
			}
			// nothing of it is visible to anybody else yet
			if vs := versionObjects(store, tablePrefix(ip)); len(vs) > 0 && st.Maint == "" {
				return fmt.Errorf("%s: before the transaction ended the bucket holds version objects of the new table: %v", where, vs)
			}
			fresh := func() (Rows, error) {
				fc := newConn()
				defer fc.Close()
				fs := isp
				fs.Name, fs.Client, fs.ReadOnly = uniqName("fi"), "freshi", true
				if err := fc.Create(fs); err != nil {
					return nil, err
				}
				return fc.Query("select k from " + fs.Name)
			}
			if rows, err := fresh(); err != nil || len(rows) != 0 {
				return fmt.Errorf("%s: before the transaction ended another connection reads %d rows of the new table (err %v)", where, len(rows), err)
			}
			if st.End == "commit" {
				if err := conn.Exec("commit"); err != nil {
					return fmt.Errorf("%s: commit: %v", where, err)
				}
				rows, err := conn.Query("select k from " + isp.Name)
				if err != nil || len(rows) != st.NRows {
					return fmt.Errorf("%s: after COMMIT the connection reads %d of %d rows of the table it created in the transaction (err %v)", where, len(rows), st.NRows, err)
				}
				if rows, err := fresh(); err != nil || len(rows) != st.NRows {
					return fmt.Errorf("%s: COMMIT was acknowledged but another connection reads %d of the %d rows (err %v)", where, len(rows), st.NRows, err)
				}
				if err := conn.Drop(isp.Name); err != nil {
					return fmt.Errorf("%s: drop: %v", where, err)
				}
			} else {
				if err := conn.Exec("rollback"); err != nil {
					return fmt.Errorf("%s: rollback: %v", where, err)
				}
				if _, err := conn.Query("select k from " + isp.Name); err == nil {
					return fmt.Errorf("%s: after ROLLBACK the table created inside the transaction still exists", where)
				}
				if rows, err := fresh(); err != nil || len(rows) != 0 {
					return fmt.Errorf("%s: after ROLLBACK another connection reads %d rows of the table (err %v)", where, len(rows), err)
				}
			}
			o.Class("createtxn-" + st.End)
			// (rolling back a CREATE makes SQLite drop its loaded schema: the connection's other
			// virtual tables are re-connected when next named in SQL; the Go-level dumps below
			// look tables up by name, so name them once)
			if t2 != "" {
				if _, err := conn.Query("select 1 from " + t2 + " limit 0"); err != nil {
					return fmt.Errorf("%s: the second table cannot be used afterwards: %v", where, err)
				}
			}
			// the main table is untouched
			if err := checkRows(where); err != nil {
				return err
			}
		case "auto":
			if len(st.Stmts) != 1 || !st.Stmts[0].wellFormed() {
				continue
			}
			if err := steer(); err != nil {
				return fmt.Errorf("%s: %v", where, err)
			}
			wt += 5
			if err := conn.SetWriteTime(baseTime + wt); err != nil {
				return err
			}
			if _, err := exec(st.Stmts[0], wt, false, where); err != nil {
				return err
			}
			committed = view.Clone()
			if err := checkRows(where); err != nil {
				return err
			}
		case "txn":
			if err := steer(); err != nil {
				return fmt.Errorf("%s: %v", where, err)
			}
			pre := view.Clone()
			preRows, err := conn.Dump(tn)
			if err != nil {
				return fmt.Errorf("%s: scan before BEGIN: %v", where, err)
			}
			preGo, err := goDump(tn)
			if err != nil {
				return err
			}
			preVer, err := conn.Version(tn)
			if err != nil {
				return err
			}
			preVersions := versionObjects(store, prefix)
			noteSeen()
			height := tableHeight(tn)
			var tm int64
			if st.Implicit {
				if err := conn.Exec("update s3db_conn set write_time=NULL"); err != nil {
					return fmt.Errorf("%s: clearing write_time: %v", where, err)
				}
				implicitN++
				tm = 1<<40 + int64(implicitN)
			}
			logFrom := store.LogLen()
			if err := conn.Exec("begin"); err != nil {
				return fmt.Errorf("%s: begin: %v", where, err)
			}
			effective := 0
			t2Key := int64(0)
			var t2Pre []GoEntry
			if st.Second > 0 && t2 != "" {
				if t2Pre, err = goDump(t2); err != nil {
					return err
				}
			}
			maint := func(at int) error {
				if st.Maint == "" || st.MaintAt != at {
					return nil
				}
				var e error
				if st.Maint == "refresh" {
					e = conn.Refresh(tn)
				} else {
					cut := baseTime - 1000
					if st.MaintFar {
						cut = farFuture
					}
					e = conn.Vacuum(tn, cut)
				}
				if e != nil {
					o.Class("txn-" + st.Maint + "-inside-refused")
				} else {
					o.Class("txn-" + st.Maint + "-inside-ran")
					// what the call itself wrote (a read-write re-open commits the merge of several
					// current versions; a vacuum retires what an earlier commit could not) is not the
					// transaction's doing: the comparisons below start from here. (Had the call
					// published or dropped pending writes, the row checks above and below report it.)
					if st.Maint == "vacuum" && st.MaintFar {
						// the purge forgets every delete marker (also those stamped with a
						// transaction's own "now"): a later INSERT with an older write time counts
						view.Vacuum(1 << 41)
						pre.Vacuum(1 << 41)
						committed.Vacuum(1 << 41)
						o.Class("txn-far-vacuum-inside-ran")
					}
					preVersions = versionObjects(store, prefix)
					noteSeen()
					logFrom = store.LogLen()
					if st.Maint == "vacuum" && c.EPN < 4096 && !c.NoSteer && !c.NoSteerK4 {
						// K4 steer: a vacuum leaves the handle on a clone of its tree, which shares
						// nodes with the BEGIN snapshot taken next (the precondition of K4, confirmed
						// with the patched dependency): re-open, if the table lets us
						if conn.Refresh(tn) == nil {
							o.Exclude("K4-refresh-after-vacuum-on-multi-node-tree")
						}
					}
					if preVer, e = conn.Version(tn); e != nil {
						return e
					}
				}
				if effective > 0 {
					o.Class("txn-" + st.Maint + "-inside-after-effective-write")
				}
				return checkRows(fmt.Sprintf("%s after s3db_%s in the middle of the transaction (result: %v)", where, st.Maint, e))
			}
			if err := maint(0); err != nil {
				return err
			}
			for j, s := range st.Stmts {
				if !s.wellFormed() {
					if err := maint(j + 1); err != nil {
						return err
					}
					continue
				}
				if !st.Implicit {
					wt += 5
					tm = wt
					if err := conn.SetWriteTime(baseTime + wt); err != nil {
						return err
					}
				}
				nb := len(view)
				skipped, err := exec(s, tm, true, fmt.Sprintf("%s stmt %d", where, j))
				if err != nil {
					return err
				}
				if skipped {
					if err := maint(j + 1); err != nil {
						return err
					}
					continue
				}
				if len(view) != nb {
					effective++
				}
				if st.NullKey && j == 0 {
					e := conn.Exec("insert into " + tn + "(k,a) values (NULL, 1)")
					if errClass(e) != "constraint-notnull" {
						return fmt.Errorf("%s: INSERT of a NULL key inside the transaction: %v", where, e)
					}
				}
				// (i) reads its own writes
				if err := checkRows(fmt.Sprintf("%s after stmt %d (inside the transaction)", where, j)); err != nil {
					return err
				}
				if st.Second == j+1 && st.End != "failcommit" && t2 != "" {
					t2Next++
					t2Key = t2Next
					if err := conn.Exec("insert into "+t2+"(k,a) values (?,?)", t2Key, 1); err != nil {
						return fmt.Errorf("%s: INSERT into the second table inside the transaction: %v", where, err)
					}
					o.Class("txn-spans-two-tables")
				}
				if err := maint(j + 1); err != nil {
					return err
				}
			}
			// (iii) nothing leaks before COMMIT
			if err := checkObserver(where + " (before the transaction ends)"); err != nil {
				return err
			}
			end := st.End
			var commitErr error
			switch end {
			case "commit":
				commitErr = conn.Exec("commit")
				if commitErr != nil {
					return fmt.Errorf("%s: commit: %v", where, commitErr)
				}
			case "rollback":
				if err := conn.Exec("rollback"); err != nil {
					return fmt.Errorf("%s: rollback: %v", where, err)
				}
			case "failcommit":
				count := 0
				store.Intercept = func(q *fakes3.Req) error {
					if q.Client != "verif://w" || !q.Mutating() {
						return nil
					}
					count++
					if count > st.FailAt {
						return fakes3.ErrInjected
					}
					return nil
				}
				commitErr = conn.Exec("commit")
				store.Intercept = nil
				if commitErr == nil {
					end = "commit" // the fault came after the last request of the commit
				} else {
					o.Class("commit-failed-by-storage-fault")
					// SQLite has rolled the transaction back; a ROLLBACK now reports that
					if e := conn.Exec("rollback"); e != nil && !strings.Contains(e.Error(), "no transaction") {
						return fmt.Errorf("%s: rollback after the failed commit: %v", where, e)
					}
				}
			}
			o.Class("txn-" + end)
			if end == "commit" {
				committed = view.Clone()
				if err := checkRows(where + " after COMMIT"); err != nil {
					return err
				}
				if err := checkObserver(where + " after COMMIT"); err != nil {
					return err
				}
				nv := versionObjects(store, prefix)
				// (a version the handle was opened on, deleted by a vacuum because it was empty, is
				// filed under root/merged/ again when the handle's next commit retires it: an old
				// name coming back is not a new version)
				added := 0
				for _, n := range nv {
					if !everSeen[n] {
						added++
					}
				}
				if added > 1 {
					return fmt.Errorf("%s: one COMMIT created %d version objects", where, added)
				}
				if added == 0 && !view.Rows(wideCols).Equal(pre.Rows(wideCols)) {
					return fmt.Errorf("%s: the committed rows changed but no new version exists", where)
				}
				// (iv) one write time for the transaction
				postGo, err := goDump(tn)
				if err != nil {
					return err
				}
				var t2Post []GoEntry
				if t2Key != 0 {
					t2Committed[t2Key] = true
					if t2Post, err = goDump(t2); err != nil {
						return err
					}
				}
				if err := checkTxnTimes(append(append([]GoEntry{}, preGo...), tagEntries(t2Pre)...), append(append([]GoEntry{}, postGo...), tagEntries(t2Post)...), st.Implicit, baseTime, where); err != nil {
					return err
				}
				if effective >= 1 {
					o.Class("commit-observed-from-second-connection")
					o.NonTrivial = true
				}
			} else {
				// (ii) rollback restores
				view = pre
				dirtyHandle = true
				got, err := conn.Dump(tn)
				if err != nil {
					return fmt.Errorf("%s: scan after rollback: %v", where, err)
				}
				if !got.Equal(preRows) {
					msg := fmt.Sprintf("%s: after the rollback the connection does not show the rows it showed before BEGIN.\nbefore BEGIN:\n%snow:\n%s", where, preRows, got)
					return fmt.Errorf("%s", msg)
				}
				if v, _ := conn.Version(tn); v != preVer {
					return fmt.Errorf("%s: s3db_version changed across a rolled-back transaction: %s -> %s", where, preVer, v)
				}
				if nv := versionObjects(store, prefix); strings.Join(nv, ",") != strings.Join(preVersions, ",") {
					return fmt.Errorf("%s: a rolled-back transaction left version objects in the bucket: before %v, now %v (writes since BEGIN: %v)", where, preVersions, nv, putsIn(store.LogSince(logFrom)))
				}
				if end == "rollback" {
					if p := putsIn(store.LogSince(logFrom)); len(p) > 0 {
						return fmt.Errorf("%s: an explicitly rolled-back transaction wrote to the bucket: %v", where, p)
					}
				}
				if err := checkObserver(where + " after rollback"); err != nil {
					return err
				}
				if effective >= 2 && height >= 1 {
					o.NonTrivial = true
					o.Class("rollback-after>=2-effective-height>=1")
				}
			}
			if t2 != "" {
				got, err := t2Rows()
				if err != nil {
					return fmt.Errorf("%s: scan of the second table: %v", where, err)
				}
				if len(got) != len(t2Committed) {
					return fmt.Errorf("%s (%s): the second table holds keys %v, committed were %v", where, end, got, t2Committed)
				}
				for k := range t2Committed {
					if !got[k] {
						return fmt.Errorf("%s (%s): the second table holds keys %v, committed were %v", where, end, got, t2Committed)
					}
				}
			}
			// the connection's write_time attribute is back to what it was
			if st.Implicit {
				wtv, err := conn.Query("select write_time from s3db_conn")
				if err != nil || len(wtv) != 1 || wtv[0][0] != "N" {
					return fmt.Errorf("%s: write_time was not set before BEGIN but reads %v after the transaction (err %v)", where, wtv, err)
				}
			}
		}
	}
	if err := checkObserver("end"); err != nil {
		return err
	}
	// a fresh open agrees with what was committed
	fc := newConn()
	defer fc.Close()
	fs := spec
	fs.Name, fs.Client, fs.ReadOnly = uniqName("f"), "fresh", true
	if err := fc.Create(fs); err != nil {
		return fmt.Errorf("fresh open: %v", err)
	}
	got, err := fc.Dump(fs.Name)
	if err != nil {
		return fmt.Errorf("fresh scan: %v", err)
	}
	if want := committed.Rows(wideCols); !got.Equal(want) {
		return fmt.Errorf("end: a fresh open differs from the committed model.\ns3db:\n%smodel:\n%s", got, want)
	}
	return nil
}

// checkTxnTimes: every timestamp that is new in post (vs pre) was written by the
// transaction. Without an explicit write_time they must all be one instant, and
// not one of the explicit times (which live around baseTime).
func checkTxnTimes(pre, post []GoEntry, implicit bool, base int64, where string) error {
	old := map[string]GoEntry{}
	for _, e := range pre {
		old[e.Key] = e
	}
	newTimes := map[int64]bool{}
	for _, e := range post {
		p, had := old[e.Key]
		if !had || p.DelT != e.DelT || p.Deleted != e.Deleted {
			newTimes[e.DelT] = true
		}
		for name, cv := range e.Cols {
			if pc, ok := p.Cols[name]; !had || !ok || pc != cv {
				newTimes[cv.T] = true
			}
		}
	}
	if !implicit {
		return nil
	}
	// explicit times are within a few hours of baseTime; the transaction's own time is "now"
	var own []int64
	for t := range newTimes {
		if t > (base+400*24*3600)*1e9 {
			own = append(own, t)
		}
	}
	if len(own) > 1 {
		sort.Slice(own, func(i, j int) bool { return own[i] < own[j] })
		return fmt.Errorf("%s: the writes of one transaction without explicit write_time carry %d different write times: %v", where, len(own), own)
	}
	return nil
}

// tagEntries renames the keys of a second table's entries so that they cannot collide with the first table's.
func tagEntries(es []GoEntry) []GoEntry {
	out := make([]GoEntry, 0, len(es))
	for _, e := range es {
		e.Key = "t2/" + e.Key
		out = append(out, e)
	}
	return out
}

func init() { register("TestC05_Txn", runC05) }

func TestC05_Txn(t *testing.T) {
	st := newStats(t, "C05", "TestC05_Txn", "one connection with a table pre-filled to tree heights 0-3 (entries_per_node 2-4096) and an observer table on a second connection; 1-14 steps: autocommit statements, BEGIN + 0-5 statements (multi-row, failing duplicate-key and NULL-key statements included) + COMMIT / ROLLBACK / COMMIT with the j-th mutating request failing (forced rollback), with explicit per-statement write_time or none; oracles: reads-own-writes after every statement, observer (refresh+scan) = committed model before the end and after it, ROLLBACK of either kind restores rows, s3db_version and the set of version objects (explicit rollback: zero PUT/DELETE), COMMIT adds at most one version object (exactly one if rows changed), entry-level timestamps written by a transaction without write_time are one instant and write_time reads NULL again; a quarter of the transactions call s3db_refresh or s3db_vacuum (cutoff older than every write) on the table at a generated position: the call may be refused or may run, the connection must still read its own writes right after it and everything above must hold (what a call that ran wrote itself is not counted as the transaction's); non-trivial = rollback after >=2 effective statements on height>=1, or a commit observed from the second connection")
	st.Assume = append(st.Assume,
		"on multi-node trees the table is refreshed after a rollback before the next transaction (known finding K4), counted under excluded")
	checkRapid(t, st, genC05Case, runC05)
}
