package checks

// C04 — a crash at any point of a commit leaves old or new contents, never a mixture.
// A committed prefix history is followed by a victim action (open-with-merge, a
// transaction, a vacuum) which is re-run once per crash point k on a copy of
// the bucket with every request after the k-th mutation failing.

import (
	"fmt"
	"os"
	"strings"
	"testing"

	"pgregory.net/rapid"

	"verif/fakes3"
)

type C04Case struct {
	Prefix MWCase `json:"prefix"`
	Victim string `json:"victim"` // txn auto vacuum open
	Stmts  []Stmt `json:"stmts,omitempty"`
	Cut    int64  `json:"cut,omitempty"`
	// Late: a statement another writer (opened before the victim) commits after the victim's
	// handle was opened and before the victim acts: the victim's commit then dies next to an
	// unmerged version of another writer
	Late *Stmt `json:"late,omitempty"`
	// Warm: a statement the victim's handle commits BEFORE the late writer's statement (crash
	// points are enumerated from after it): the late writer's version is then a sibling of the
	// victim's lineage, and the victim's dying commit leaves parent, child and that sibling listed
	Warm *Stmt `json:"warm,omitempty"`
	// CreateInTxn (victim txn, no late writer): the victim opens its table INSIDE the
	// transaction (BEGIN; CREATE VIRTUAL TABLE; statements; COMMIT): SQLite calls no begin
	// callback for such a table, its sync/commit callbacks run all the same
	CreateInTxn bool `json:"create_in_txn,omitempty"`
}

func genC04Case(t *rapid.T) C04Case {
	g := mwGenCfg{maxWriters: 3, keyChoices: []int{3, 6, 12}, maxSteps: 18,
		wStmt: 12, wTxn: 2, wRefresh: 2, wRetry: 0, wPartial: 0, wObserve: 0, wVacuum: 0,
		wIns: 5, wUpd: 3, wDel: 3, multiRow: true, mode: "c04", smallVals: true}
	c := C04Case{Prefix: genMWCase(t, g)}
	c.Victim = rapid.SampledFrom([]string{"txn", "txn", "auto", "vacuum", "vacuum", "open"}).Draw(t, "victim")
	cfg := stmtGenCfg{keys: intKeys(c.Prefix.NKeys), cols: wideCols, vals: rapid.SampledFrom([]Val{vNull(), vInt(1), vInt(2)}), multiRow: true, wIns: 4, wUpd: 3, wDel: 3}
	n := 1
	if c.Victim == "txn" {
		n = rapid.IntRange(1, 4).Draw(t, "nstmts")
	}
	if c.Victim == "txn" || c.Victim == "auto" {
		for i := 0; i < n; i++ {
			s := genStmt(t, cfg, "v")
			s.T = int64(60*256 + i) // later than every prefix write
			c.Stmts = append(c.Stmts, s)
		}
	}
	if c.Victim == "vacuum" {
		c.Cut = rapid.SampledFrom([]int64{-1, -1, 41 * 256, 3000}).Draw(t, "cut")
	}
	if c.Victim != "open" && rapid.IntRange(0, 1).Draw(t, "withLate") == 0 {
		lcfg := cfg
		lcfg.multiRow = false
		l := genStmt(t, lcfg, "late")
		l.T = int64(50 * 256)
		c.Late = &l
		if rapid.Bool().Draw(t, "withWarm") {
			w := genStmt(t, lcfg, "warm")
			w.T = int64(45 * 256)
			c.Warm = &w
		}
	}
	if c.Victim == "txn" && c.Late == nil {
		c.CreateInTxn = rapid.IntRange(0, 2).Draw(t, "createintxn") == 0
	}
	return c
}

// runVictim opens a read-write table on st as client "victim" and performs the
// victim action. It returns whether the action was acknowledged.
func runVictim(c C04Case, st *fakes3.Store, spec TableSpec, view MSet) (acked bool, after MSet, err error) {
	acked, after, _, err = runVictimLate(c, st, spec, view, func() {})
	return
}

// runVictimLate also returns the operations committed before the victim acts — the victim's
// own warm-up statement and the late writer's statement (nil when the victim died before
// that point). arm is called when the enumeration of crash points starts.
func runVictimLate(c C04Case, st *fakes3.Store, spec TableSpec, view MSet, arm func()) (acked bool, after MSet, lateOps []MOp, err error) {
	b, _ := newBucket(st)
	defer fakes3.Unregister(b)
	var lconn *Conn
	lname := uniqName("late")
	if c.Late != nil && c.Late.wellFormed() {
		lconn = newConn()
		defer lconn.Close()
		ls := spec
		ls.Bucket, ls.Name, ls.Client = b, lname, "late"
		if err := lconn.Create(ls); err != nil {
			return false, view, nil, fmt.Errorf("late writer: open: %v", err)
		}
	}
	var lateOnly []MOp
	acked, after, err = runVictimAfterOpen(c, st, b, spec, view, arm, func(warmOps []MOp) error {
		if lconn == nil {
			return nil
		}
		lateOps = append([]MOp{}, warmOps...)
		outcome, added, _ := view.Exec(*c.Late, wideCols)
		if err := lconn.SetWriteTime(baseTime + c.Late.T); err != nil {
			return err
		}
		q, args := c.Late.SQL(lname, "k")
		if cls := errClass(lconn.Exec(q, args...)); cls != outcome {
			return fmt.Errorf("HARNESS-MISMATCH late writer %s: outcome %s, model expects %s", *c.Late, cls, outcome)
		}
		lateOps = append(lateOps, added...)
		lateOnly = added
		return nil
	})
	if after != nil {
		after = after.Clone() // (error paths hand back the caller's own set)
		if os.Getenv("VERIF_TRACE") != "" {
			fmt.Fprintf(os.Stderr, "  runVictimLate: acked=%v lateOps=%d after-before-union=%s view=%s\n", acked, len(lateOps), strings.ReplaceAll(after.Rows(wideCols).String(), "\n", ";"), strings.ReplaceAll(view.Rows(wideCols).String(), "\n", ";"))
		}
		if len(lateOnly) > 0 {
			// (a late statement that matched no row commits no version)
			// the late writer's version holds everything its (stale) handle saw plus its own
			// statement; readers merge it with the victim's version. After a vacuum by the victim
			// this can bring back a row the victim deleted before the cutoff: the documented
			// limit of vacuum next to unmerged versions, predicted by the model, not an alarm.
			after.Union(view)
		}
		for _, op := range lateOnly {
			after.Add(op)
		}
	}
	return
}

func runVictimAfterOpen(c C04Case, st *fakes3.Store, b string, spec TableSpec, view MSet, arm func(), afterOpen func(warmOps []MOp) error) (acked bool, after MSet, err error) {
	conn := newConn()
	defer conn.Close()
	sp := spec
	sp.Bucket, sp.Name, sp.Client = b, uniqName("vic"), "victim"
	warm := c.Warm != nil && c.Warm.wellFormed() && c.Late != nil && c.Victim != "open"
	if !warm {
		arm() // the victim's open (and the merge it may commit) is part of the enumeration
	}
	after = view.Clone()
	createdInTxn := c.CreateInTxn && c.Victim == "txn" && !warm && c.Late == nil
	if createdInTxn {
		if err := conn.Exec("begin"); err != nil {
			return false, view, err
		}
	}
	if err := conn.Create(sp); err != nil {
		return false, after, err
	}
	var warmOps []MOp
	if warm {
		outcome, added, _ := after.Exec(*c.Warm, wideCols)
		if err := conn.SetWriteTime(baseTime + c.Warm.T); err != nil {
			return false, view, err
		}
		q, args := c.Warm.SQL(sp.Name, "k")
		if cls := errClass(conn.Exec(q, args...)); cls != outcome {
			return false, view, fmt.Errorf("HARNESS-MISMATCH warm-up %s: outcome %s, model expects %s", *c.Warm, cls, outcome)
		}
		for _, op := range added {
			after.Add(op)
		}
		warmOps = added
		arm()
	}
	if err := afterOpen(warmOps); err != nil {
		return false, after, err
	}
	switch c.Victim {
	case "open":
		return true, after, nil
	case "vacuum":
		cut := baseTime + c.Cut
		mcut := c.Cut
		if c.Cut < 0 {
			cut, mcut = farFuture, 1<<40
		}
		if err := conn.Vacuum(sp.Name, cut); err != nil {
			return false, after, err
		}
		after.Vacuum(mcut)
		return true, after, nil
	case "txn", "auto":
		explicit := c.Victim == "txn"
		if explicit && !createdInTxn {
			if err := conn.Exec("begin"); err != nil {
				return false, view, err
			}
		}
		for _, s := range c.Stmts {
			if !s.wellFormed() {
				continue
			}
			outcome, added, _ := after.Exec(s, wideCols)
			if outcome != "ok" && len(s.Keys) > 1 {
				continue // K3/K4: partially applied failing multi-row INSERT, not issued
			}
			if err := conn.SetWriteTime(baseTime + s.T); err != nil {
				return false, view, err
			}
			q, args := s.SQL(sp.Name, "k")
			err := conn.Exec(q, args...)
			if cls := errClass(err); cls == "error" {
				return false, view, err
			} else if cls != outcome {
				return false, view, fmt.Errorf("HARNESS-MISMATCH %s: outcome %s, model expects %s", s, cls, outcome)
			}
			for _, op := range added {
				after.Add(op)
			}
		}
		if explicit {
			if err := conn.Exec("commit"); err != nil {
				return false, view, err
			}
		}
		return true, after, nil
	}
	return false, view, fmt.Errorf("bad victim %q", c.Victim)
}

func runC04(c C04Case, o *Obs) error {
	c.Prefix.Mode = "c04"
	r, err := newMWRun(c.Prefix, o)
	if err != nil {
		return err
	}
	defer r.close()
	for i, s := range c.Prefix.Steps {
		if s.W >= len(r.ws) {
			s.W = 0
		}
		ok := true
		for _, st := range s.Stmts {
			ok = ok && st.wellFormed()
		}
		if !ok || (s.Op == "stmt" && len(s.Stmts) != 1) {
			continue
		}
		if err := r.step(i, s); err != nil {
			return fmt.Errorf("prefix: %v", err)
		}
	}
	beforeSet, err := r.expectCurrent(r.store, false)
	if err != nil {
		return err
	}
	before := beforeSet.Rows(wideCols)
	frontier := len(r.currentNames())

	// reference run
	ref := r.store.Clone()
	armIdx := 0
	acked, afterSet, _, err := runVictimLate(c, ref, r.spec, beforeSet, func() { armIdx = ref.LogLen() })
	if err != nil {
		return fmt.Errorf("reference run of the victim (%s) fails without any fault: %v", c.Victim, err)
	}
	if !acked {
		return fmt.Errorf("reference run not acknowledged")
	}
	after := afterSet.Rows(wideCols)
	m := 0
	for _, q := range ref.LogSince(armIdx) {
		if q.Client == "verif://victim" && q.Mutating() {
			m++
		}
	}
	height := 0
	for _, n := range currentVersions(ref, r.prefix) {
		if w, err := walkVersion(ref, r.prefix, n); err == nil && w.MaxDepth > height {
			height = w.MaxDepth
		}
	}
	o.Class("victim-" + c.Victim)
	if c.CreateInTxn && c.Victim == "txn" && c.Late == nil {
		o.Class("victim-creates-its-table-inside-the-transaction")
	}
	if frontier >= 2 {
		o.Class("victim-merges-on-open")
	}

	recover1 := func(st *fakes3.Store, ro bool, k int, which string) (Rows, error) {
		rows, err := r.observe(st, ro, []int{k % 3, 1}, "rec")
		if err != nil {
			return nil, fmt.Errorf("victim %s, crash after mutation %d of %d: %s recovery open fails: %v", c.Victim, k, m, which, err)
		}
		return rows, nil
	}

	for k := 0; k <= m; k++ {
		st := r.store.Clone()
		count := 0
		dead, armed := false, false
		st.Intercept = func(q *fakes3.Req) error {
			if q.Client != "verif://victim" || !armed {
				return nil
			}
			if dead {
				return fakes3.ErrInjected
			}
			if q.Mutating() {
				if count >= k {
					dead = true
					return fakes3.ErrInjected
				}
				count++
			}
			return nil
		}
		ackedK, _, lateK, _ := runVictimLate(c, st, r.spec, beforeSet, func() { armed = true })
		st.Intercept = nil
		before := before
		if os.Getenv("VERIF_TRACE") != "" {
			fmt.Fprintf(os.Stderr, "  k=%d ackedK=%v lateK=%v\n", k, ackedK, lateK)
		}
		if lateK != nil {
			bk := beforeSet.Clone()
			for _, op := range lateK {
				bk.Add(op)
			}
			before = bk.Rows(wideCols)
			if len(lateK) > 0 {
				o.Class("crash-next-to-unmerged-later-version")
			}
		}
		o.Class("crash-point")
		if k > 0 && k < m && height >= 1 {
			o.NonTrivial = true
			o.Class("crash-inside-commit-height>=1")
		}
		snap := st.Clone()
		rows1, err := recover1(snap.Clone(), true, k, "read-only")
		if err != nil {
			return err
		}
		// with three or more versions listed (the dead commit's parent, its child and another
		// writer's version) the read-only recovery is repeated in every merge order
		if nv := len(currentVersions(snap, r.prefix)); nv >= 3 {
			for _, code := range [][]int{{0, 0}, {0, 1}, {1, 0}, {1, 1}, {2, 0}, {2, 1}} {
				rowsP, err := r.observe(snap.Clone(), true, code, "rec")
				if err != nil {
					return fmt.Errorf("victim %s, crash after mutation %d of %d: read-only recovery open in merge order %v fails: %v", c.Victim, k, m, code, err)
				}
				if !rowsP.Equal(rows1) {
					return fmt.Errorf("victim %s, crash after mutation %d of %d: read-only recovery opens in different merge orders disagree (order code %v).\nfirst:\n%sthis one:\n%s", c.Victim, k, m, code, rows1, rowsP)
				}
			}
			o.Class("recovery-in-all-merge-orders")
		}
		rw := snap.Clone()
		rows2, err := recover1(rw, false, k, "read-write")
		if err != nil {
			return err
		}
		rows3, err := recover1(rw, true, k, "third (after the read-write recovery)")
		if err != nil {
			return err
		}
		desc := fmt.Sprintf("victim %s, crash after mutation %d of %d (acknowledged=%v)", c.Victim, k, m, ackedK)
		if !rows1.Equal(rows2) || !rows2.Equal(rows3) {
			return fmt.Errorf("%s: recovery opens disagree.\nread-only:\n%sread-write:\n%sthird:\n%s", desc, rows1, rows2, rows3)
		}
		isBefore, isAfter := rows1.Equal(before), rows1.Equal(after)
		if !isBefore && !isAfter {
			return fmt.Errorf("%s: recovered rows are neither the contents before nor after the transaction.\nbefore:\n%safter:\n%srecovered:\n%s", desc, before, after, rows1)
		}
		if ackedK && !isAfter {
			return fmt.Errorf("%s: the commit was acknowledged but recovery shows the old contents.\nafter:\n%srecovered:\n%s", desc, after, rows1)
		}
		// nothing a recovered version refers to may be missing
		// (a vacuum interrupted between deleting nodes and deleting the version objects
		// that needed them leaves historic version objects dangling: only the current
		// versions are demanded there)
		for _, n := range currentVersions(rw, r.prefix) {
			w, err := walkVersion(rw, r.prefix, n)
			if err != nil {
				return fmt.Errorf("%s: %v", desc, err)
			}
			if len(w.Problems) > 0 {
				return fmt.Errorf("%s: after recovery the current version %s is not intact: %v", desc, n, w.Problems)
			}
		}
		if c.Victim != "vacuum" {
			if _, problems := (&mwRun{store: rw, prefix: r.prefix}).reach(rw); len(problems) > 0 {
				return fmt.Errorf("%s: after recovery a version refers to a missing object: %v", desc, problems)
			}
		}
	}
	return nil
}

func init() { register("TestC04_Crash", runC04) }

func TestC04_Crash(t *testing.T) {
	st := newStats(t, "C04", "TestC04_Crash", "a committed multi-writer prefix history (1-3 writers, entries_per_node 2-4096, 2-18 steps) followed by a victim: read-write open (merge commit when >=2 versions are unmerged) then nothing / one autocommit statement / a transaction of 1-4 statements / s3db_vacuum (cutoffs incl. year 2100); a fault-free reference run on a copy gives before, after and M = mutating requests; in half of the cases another writer commits one statement after the victim's handle was opened, so the victim's commit dies next to an unmerged version; for EVERY k in 0..M the victim is re-run on a fresh copy with every request after its k-th mutation failing, then a read-only, a read-write and a third recovery open must succeed, agree, show exactly before or after (after if acknowledged; before=after for vacuum) and every version object must still resolve all its node links; a third of the transaction victims without a late writer CREATE their table inside the transaction (BEGIN; CREATE VIRTUAL TABLE; statements; COMMIT: SQLite calls no begin callback for such a table); non-trivial = 0<k<M on a tree of height>=1")
	st.Assume = append(st.Assume, "the order in which mast's flush goroutines issue node PUTs is not pinned: which nodes exist at crash point k can differ between runs; the verdict must hold for each")
	checkRapid(t, st, genC04Case, runC04)
}
