package checks

// C11 — a version name denotes an immutable snapshot.
// C12 — s3db_changes reports exactly the rows that differ between two versions.
// Both extend the multi-writer runner, which records (s3db_version, rows) after
// every commit.

import (
	"encoding/json"
	"fmt"
	"sort"
	"strings"
	"testing"

	"pgregory.net/rapid"

	"verif/fakes3"
)

// rereadSnaps re-opens recorded versions and compares with the recorded rows.
func (r *mwRun) rereadSnaps(where string, viaChanges bool) error {
	for idx, sn := range r.snaps {
		names := parseVersionList(sn.Version)
		if len(names) == 0 {
			continue
		}
		rows, err := rowsOfVersion(r.bucket, "", names)
		if err != nil {
			return fmt.Errorf("%s: version %s (recorded at commit %d) no longer opens: %v", where, sn.Version, idx, err)
		}
		if !rows.Equal(sn.Rows) {
			return fmt.Errorf("%s: version %s no longer gives the rows it had when it was taken.\nrecorded:\n%snow:\n%s", where, sn.Version, sn.Rows, rows)
		}
		if viaChanges {
			got, err := r.changes("[]", sn.Version, nil)
			if err != nil {
				return fmt.Errorf("%s: s3db_changes(from='[]', to=%s) fails: %v", where, sn.Version, err)
			}
			if !got.Sorted().Equal(sn.Rows) {
				return fmt.Errorf("%s: s3db_changes(from='[]', to=%s) does not give the rows of that version.\nrecorded:\n%schanges:\n%s", where, sn.Version, sn.Rows, got.Sorted())
			}
		}
		r.o.Class("version-reread")
		// non-trivial: a merge and a write to one of its rows happened since
		if idx+2 < len(r.snaps) && len(sn.Rows) > 0 {
			later := r.snaps[len(r.snaps)-1]
			if !later.Rows.Equal(sn.Rows) && r.o.Classes["refresh-merging>=2"]+r.o.Classes["partial-merge>=2"] > 0 {
				r.o.NonTrivial = true
			}
		}
	}
	return nil
}

// changes runs s3db_changes(from, to) through a dedicated connection/table
// (client "chg") and returns its rows. arm, when set, is called right before
// the SELECT (fault injection).
func (r *mwRun) changes(from, to string, arm func()) (Rows, error) {
	conn := newConn()
	defer conn.Close()
	sp := r.spec
	sp.Name, sp.Client, sp.ReadOnly = uniqName("c"), "chg", true
	if err := conn.Create(sp); err != nil {
		return nil, fmt.Errorf("open table for s3db_changes: %w", err)
	}
	cn := uniqName("chg")
	q := fmt.Sprintf("create virtual table %s using s3db_changes(table='%s', from='%s', to='%s')", cn, sp.Name, from, to)
	if err := conn.Exec(q); err != nil {
		return nil, fmt.Errorf("create changes table: %w", err)
	}
	if arm != nil {
		arm()
	}
	rows, err := conn.Query("select * from " + cn)
	r.store.Intercept = nil
	if err != nil {
		return nil, err
	}
	return rows, nil
}

// checkChanges: two-sided oracle for s3db_changes(from=A, to=B).
func checkChanges(got, rowsA, rowsB Rows) error {
	inB := map[string]bool{}
	for _, row := range rowsB {
		inB[strings.Join(row, "|")] = true
	}
	inA := map[string]bool{}
	for _, row := range rowsA {
		inA[strings.Join(row, "|")] = true
	}
	seen := map[string]int{}
	for _, row := range got {
		k := strings.Join(row, "|")
		seen[k]++
		if !inB[k] {
			return fmt.Errorf("returned row %s is not a row of the 'to' version", k)
		}
		if seen[k] > 1 {
			return fmt.Errorf("row %s is returned twice", k)
		}
	}
	for k := range inB {
		if !inA[k] && seen[k] == 0 {
			return fmt.Errorf("row %s of the 'to' version is absent from (or different in) the 'from' version but is not returned", k)
		}
	}
	return nil
}

func (r *mwRun) changesStep(s MWStep, where string) error {
	if len(r.snaps) < 2 {
		return nil
	}
	i, j := s.Ref%len(r.snaps), s.Mask%len(r.snaps)
	if s.Cut == 1 {
		// far-apart pair: an early version against a late one (more rows deleted, changed and added in between)
		third := len(r.snaps)/3 + 1
		i, j = s.Ref%third, len(r.snaps)-1-(s.Mask%third)
		if s.Ref%2 == 1 {
			i, j = j, i
		}
	}
	a, b := r.snaps[i], r.snaps[j]
	if s.Cut == 2 {
		// version vector: one side names the versions of two recordings at once (what a
		// read-only handle on an unmerged frontier reports); its rows are those of the
		// union of the operation sets the names were published with
		n := len(r.snaps)
		x, y := r.snaps[s.Ref%n], r.snaps[(s.Ref%n+1+(s.Ref/n)%(n-1))%n]
		nameSet := map[string]bool{}
		u := MSet{}
		for _, nm := range append(parseVersionList(x.Version), parseVersionList(y.Version)...) {
			pb, ok := r.pub[nm]
			if !ok {
				return nil
			}
			nameSet[nm] = true
			u.Union(pb)
		}
		var names []string
		for nm := range nameSet {
			names = append(names, `"`+nm+`"`)
		}
		sort.Strings(names)
		if s.Ref%3 == 0 {
			names[0], names[len(names)-1] = names[len(names)-1], names[0]
		}
		vec := verSnap{Version: "[" + strings.Join(names, ",") + "]", Rows: u.Rows(wideCols)}
		a, b = r.snaps[j], vec
		if s.Mask%2 == 1 {
			a, b = b, a
		}
		if len(names) >= 2 {
			r.o.Class("changes-version-vector")
		}
	}
	// the empty version '[]' (what s3db_version reports before anything was written) is a
	// version like any other: from='[]' returns every row of B, to='[]' returns nothing
	if s.Cut == 0 && s.Ref%5 == 0 {
		a = verSnap{Version: "[]", Rows: Rows{}}
		r.o.Class("changes-from-the-empty-version")
	} else if s.Cut == 0 && s.Mask%7 == 0 {
		b = verSnap{Version: "[]", Rows: Rows{}}
		r.o.Class("changes-to-the-empty-version")
	}
	if (len(parseVersionList(a.Version)) == 0 && a.Version != "[]") || (len(parseVersionList(b.Version)) == 0 && b.Version != "[]") {
		return nil
	}
	where = fmt.Sprintf("%s s3db_changes(from=%s, to=%s)", where, a.Version, b.Version)
	from := r.store.LogLen()
	got, err := r.changes(a.Version, b.Version, nil)
	if err != nil {
		return fmt.Errorf("%s fails: %v", where, err)
	}
	if err := checkChanges(got, a.Rows, b.Rows); err != nil {
		return fmt.Errorf("%s: %v\nfrom:\n%sto:\n%sreturned:\n%s", where, err, a.Rows, b.Rows, got.Sorted())
	}
	r.o.Class("changes-pair")
	// classify: rows deleted, changed, added between A and B
	keyOf := func(rows Rows) map[string]string {
		m := map[string]string{}
		for _, row := range rows {
			m[row[0]] = strings.Join(row, "|")
		}
		return m
	}
	ka, kb := keyOf(a.Rows), keyOf(b.Rows)
	del, chg, add := 0, 0, 0
	for k, v := range ka {
		if v2, ok := kb[k]; !ok {
			del++
		} else if v2 != v {
			chg++
		}
	}
	for k := range kb {
		if _, ok := ka[k]; !ok {
			add++
		}
	}
	if del > 0 {
		r.o.Class("changes-with-deleted-row")
	}
	if del > 0 && chg > 0 && add > 0 && r.c.EPN < 4096 {
		r.o.NonTrivial = true
		r.o.Class("changes-del+chg+add")
	}
	if s.Op != "changes-fault" {
		return nil
	}
	// ---- single storage fault at every request index of the diff ----
	nreq := 0
	for _, q := range r.store.LogSince(from) {
		if q.Client == "verif://chg" {
			nreq++
		}
	}
	// requests issued before the SELECT (table open) are not part of the diff:
	// count only those after arming, by arming at index 0 with a counter
	for p := 0; p < nreq+1; p++ {
		count := 0
		hit := false
		arm := func() {
			count = 0
			r.store.Intercept = func(q *fakes3.Req) error {
				if q.Client != "verif://chg" {
					return nil
				}
				count++
				if count-1 == p {
					hit = true
					return fakes3.ErrInjected
				}
				return nil
			}
		}
		got, err := r.changes(a.Version, b.Version, arm)
		r.store.Intercept = nil
		if !hit {
			break // past the last request of the diff
		}
		r.o.Class("changes-fault-point")
		if err != nil {
			continue // failing is the allowed answer
		}
		if cerr := checkChanges(got, a.Rows, b.Rows); cerr != nil {
			return fmt.Errorf("%s with request %d of the diff failing: the query succeeded with a partial answer: %v\nfull answer:\n%sreturned:\n%s", where, p, cerr, b.Rows, got.Sorted())
		}
	}
	return nil
}

func c11Gen(mode string) mwGenCfg {
	return mwGenCfg{maxWriters: 3, keyChoices: []int{3, 6, 12}, maxSteps: 35,
		wStmt: 12, wTxn: 3, wRefresh: 3, wRetry: 1, wPartial: 1, wObserve: 0, wVacuum: 0,
		wIns: 4, wUpd: 4, wDel: 3, multiRow: true, mode: mode}
}

// genWithExtra inserts steps of the given op at random places.
func genWithExtra(t *rapid.T, g mwGenCfg, ops []string, every int) MWCase {
	c := genMWCase(t, g)
	var out []MWStep
	for _, s := range c.Steps {
		out = append(out, s)
		if rapid.IntRange(0, every-1).Draw(t, "extra") == 0 {
			out = append(out, MWStep{Op: rapid.SampledFrom(ops).Draw(t, "extraop"),
				Ref: rapid.IntRange(0, 1000).Draw(t, "i"), Mask: rapid.IntRange(0, 1000).Draw(t, "j"), Cut: int64(rapid.IntRange(0, 2).Draw(t, "far"))})
		}
	}
	out = append(out, MWStep{Op: ops[0], Ref: 0, Mask: 1 << 20, Cut: 1})
	c.Steps = out
	return c
}

func init() {
	register("TestC11_Versions", runMW)
	register("TestC12_Changes", runMW)
}

func TestC11_Versions(t *testing.T) {
	st := newStats(t, "C11", "TestC11_Versions", "multi-writer histories (transactions, refreshes, retries, partial merges, zero-row statements); (s3db_version, rows) recorded after every step; at generated points and at the end every recorded version is re-opened restricted to that version (Go-level read-only open and s3db_changes(from='[]')) and must give its recorded rows; s3db_version must stay the same across steps that add no effective operation and change whenever the visible rows change; a read-only table opened on k unmerged versions must report exactly the k names under root/current/, a read-write open one name whose recorded parents are that frontier; non-trivial = a re-read after at least one merge and one later change of the table")
	g := c11Gen("c11")
	checkRapid(t, st, func(rt *rapid.T) MWCase { return genWithExtra(rt, g, []string{"reread", "frontier"}, 6) }, runMW)
}

func c12Gen() mwGenCfg {
	g := c11Gen("c12")
	g.wVacuum = 1 // versions on both sides of a vacuum (markers purged, trees re-shaped)
	g.wDel = 4
	g.keyChoices = []int{6, 12, 20}
	return g
}

func TestC12_Changes(t *testing.T) {
	st := newStats(t, "C12", "TestC12_Changes", "the histories of C11 (updates, deletes, re-inserts, merges; entries_per_node 2-4 so versions are multi-node and share subtrees); ordered pairs (A,B) of recorded versions incl. A after B, A=B and versions of different writers; s3db_changes(from=A,to=B) must return only rows of B, each once, and every row of B that is absent from or different in A, without failing; in fault mode the same query is repeated with the p-th storage request of the diff failing, for every p: it must fail or still satisfy both directions; non-trivial = a pair with rows deleted, changed and added between A and B on multi-node trees")
	g := c12Gen()
	checkRapid(t, st, func(rt *rapid.T) MWCase {
		return genWithExtra(rt, g, []string{"changes", "changes", "changes-fault"}, 4)
	}, runMW)
}

// ---------------------------------------------------------------------------
// C11 bookkeeping inside the runner

func (r *mwRun) frontierStep(where string) error {
	names := currentVersions(r.store, r.prefix)
	sort.Strings(names)
	// read-only: reports exactly the unmerged versions
	ro := r.store.Clone()
	b, _ := newBucket(ro)
	defer fakes3.Unregister(b)
	conn := newConn()
	defer conn.Close()
	sp := r.spec
	sp.Bucket, sp.Name, sp.Client, sp.ReadOnly = b, uniqName("v"), "ver", true
	if err := conn.Create(sp); err != nil {
		return fmt.Errorf("%s: read-only open: %v", where, err)
	}
	v, err := conn.Version(sp.Name)
	if err != nil {
		return fmt.Errorf("%s: s3db_version on a read-only table: %v", where, err)
	}
	got := parseVersionList(v)
	if strings.Join(got, ",") != strings.Join(names, ",") {
		return fmt.Errorf("%s: a read-only table opened on versions %v reports s3db_version %v", where, names, got)
	}
	if len(names) >= 2 {
		r.o.Class("frontier-readonly>=2")
	}
	// read-write: one name whose parents are the frontier
	rw := r.store.Clone()
	b2, _ := newBucket(rw)
	defer fakes3.Unregister(b2)
	conn2 := newConn()
	defer conn2.Close()
	sp.Bucket, sp.Name, sp.ReadOnly = b2, uniqName("v"), false
	if err := conn2.Create(sp); err != nil {
		return fmt.Errorf("%s: read-write open: %v", where, err)
	}
	v2, err := conn2.Version(sp.Name)
	if err != nil {
		return fmt.Errorf("%s: s3db_version: %v", where, err)
	}
	got2 := parseVersionList(v2)
	switch {
	case len(names) == 0:
		if len(got2) != 0 {
			return fmt.Errorf("%s: empty bucket but s3db_version = %v", where, got2)
		}
	case len(names) == 1:
		if len(got2) != 1 || got2[0] != names[0] {
			return fmt.Errorf("%s: one current version %v but a read-write open reports %v", where, names, got2)
		}
	default:
		if len(got2) != 1 {
			return fmt.Errorf("%s: read-write open on %d versions reports %v", where, len(names), got2)
		}
		vo, _, err := loadVersion(rw, r.prefix, got2[0])
		if err != nil {
			return fmt.Errorf("%s: the version a read-write open reports does not exist: %v", where, err)
		}
		ps := append([]string(nil), vo.Parents...)
		sort.Strings(ps)
		if strings.Join(ps, ",") != strings.Join(names, ",") {
			return fmt.Errorf("%s: merged version %s records parents %v, the frontier was %v", where, got2[0], ps, names)
		}
	}
	return nil
}

var _ = json.Marshal
