// Package fakes3 is an in-memory stand-in for the four S3 calls s3db uses.
// It keeps a request log per client, can be snapshotted/cloned, and lets the
// harness intercept every request (to inject faults, to crash, or to hand
// control to a deterministic scheduler).
package fakes3

import (
	"bytes"
	"errors"
	"fmt"
	"io"
	"sort"
	"strings"
	"sync"

	"github.com/aws/aws-sdk-go/aws"
	"github.com/aws/aws-sdk-go/aws/awserr"
	"github.com/aws/aws-sdk-go/aws/request"
	"github.com/aws/aws-sdk-go/service/s3"
)

// Req is one object-store request as seen by the store.
type Req struct {
	Seq    int    // global sequence number (order of arrival)
	Client string // client id (the s3_endpoint string the table was created with)
	Op     string // LIST GET PUT DELETE
	Key    string // object key or list prefix
	Err    string // non-empty when the harness made it fail
	Miss   bool   // GET of a non-existing object
	New    bool   // PUT that created the object (false: same bytes stored again)
	// Bounded: the request's context can end (it has a deadline or can be cancelled). A
	// request issued with an unbounded context waits for ever on a store that does not answer.
	Bounded bool
}

func (r Req) String() string {
	s := fmt.Sprintf("%s %s %s", r.Client, r.Op, r.Key)
	if r.Err != "" {
		s += " !" + r.Err
	}
	return s
}

func (r Req) Mutating() bool { return r.Op == "PUT" || r.Op == "DELETE" }

// ErrInjected is the transport error handed out by fault plans.
var ErrInjected = errors.New("verif: injected transport error")

// ErrNoSuchKey is the well-formed "no such object" answer, for interceptors that
// model an object whose PUT was acknowledged but is not visible yet.
func ErrNoSuchKey() error {
	return awserr.New(s3.ErrCodeNoSuchKey, "The specified key does not exist.", nil)
}

type Store struct {
	mu      sync.Mutex
	objs    map[string][]byte
	born    map[string]int // key -> Seq of the PUT that created it
	log     []Req
	seq     int
	rewrite []string // immutability breaches: names re-written with different bytes

	// Intercept, when set, runs before a request takes effect, outside the
	// store lock. A non-nil error makes the request fail without effect.
	Intercept func(r *Req) error
	// ListFilter, when set, may hide keys from a LIST answer.
	ListFilter func(client, prefix string, keys []string) []string
}

func New() *Store {
	return &Store{objs: map[string][]byte{}, born: map[string]int{}}
}

// Clone copies the objects (not the log, not the interceptors).
func (s *Store) Clone() *Store {
	s.mu.Lock()
	defer s.mu.Unlock()
	n := New()
	for k, v := range s.objs {
		n.objs[k] = v
	}
	for k, v := range s.born {
		n.born[k] = v
	}
	n.seq = s.seq
	return n
}

// Snapshot returns a copy of the object map.
func (s *Store) Snapshot() map[string][]byte {
	s.mu.Lock()
	defer s.mu.Unlock()
	m := make(map[string][]byte, len(s.objs))
	for k, v := range s.objs {
		m[k] = v
	}
	return m
}

// FromSnapshot builds a store holding exactly these objects.
func FromSnapshot(m map[string][]byte) *Store {
	n := New()
	keys := make([]string, 0, len(m))
	for k := range m {
		keys = append(keys, k)
	}
	sort.Strings(keys)
	for _, k := range keys {
		n.seq++
		n.objs[k] = m[k]
		n.born[k] = n.seq
	}
	return n
}

func (s *Store) Keys(prefix string) []string {
	s.mu.Lock()
	defer s.mu.Unlock()
	return s.keysLocked(prefix)
}

func (s *Store) keysLocked(prefix string) []string {
	var ks []string
	for k := range s.objs {
		if strings.HasPrefix(k, prefix) {
			ks = append(ks, k)
		}
	}
	sort.Strings(ks)
	return ks
}

func (s *Store) Get(key string) ([]byte, bool) {
	s.mu.Lock()
	defer s.mu.Unlock()
	b, ok := s.objs[key]
	return b, ok
}

// Put stores an object directly (harness use; not logged).
func (s *Store) Put(key string, b []byte) {
	s.mu.Lock()
	defer s.mu.Unlock()
	if _, ok := s.objs[key]; !ok {
		s.seq++
		s.born[key] = s.seq
	}
	s.objs[key] = b
}

// Remove deletes an object directly (harness use; not logged).
func (s *Store) Remove(key string) {
	s.mu.Lock()
	defer s.mu.Unlock()
	delete(s.objs, key)
}

// Born returns the sequence number of the request that created key (0 if absent).
func (s *Store) Born(key string) int {
	s.mu.Lock()
	defer s.mu.Unlock()
	return s.born[key]
}

func (s *Store) Log() []Req {
	s.mu.Lock()
	defer s.mu.Unlock()
	return append([]Req(nil), s.log...)
}

func (s *Store) LogLen() int {
	s.mu.Lock()
	defer s.mu.Unlock()
	return len(s.log)
}

// LogSince returns the requests logged at index >= from.
func (s *Store) LogSince(from int) []Req {
	s.mu.Lock()
	defer s.mu.Unlock()
	if from > len(s.log) {
		from = len(s.log)
	}
	return append([]Req(nil), s.log[from:]...)
}

// Rewrites lists names that were PUT twice with different bytes.
func (s *Store) Rewrites() []string {
	s.mu.Lock()
	defer s.mu.Unlock()
	return append([]string(nil), s.rewrite...)
}

// Client returns an S3 client bound to this store that tags its requests.
func (s *Store) Client(id string) *Client { return &Client{s: s, id: id} }

type Client struct {
	s  *Store
	id string
}

func ctxErr(ctx aws.Context) error {
	if err := ctx.Err(); err != nil {
		return awserr.New(request.CanceledErrorCode, "request context canceled", err)
	}
	return nil
}

// begin logs the request and consults the interceptor. It returns the index
// of the log entry.
func (c *Client) begin(ctx aws.Context, op, key string) (int, error) {
	s := c.s
	s.mu.Lock()
	s.seq++
	r := Req{Seq: s.seq, Client: c.id, Op: op, Key: key}
	if _, ok := ctx.Deadline(); ok || ctx.Done() != nil {
		r.Bounded = true
	}
	idx := len(s.log)
	s.log = append(s.log, r)
	icpt := s.Intercept
	s.mu.Unlock()
	if err := ctxErr(ctx); err != nil {
		s.mu.Lock()
		s.log[idx].Err = "ctx"
		s.mu.Unlock()
		return idx, err
	}
	if icpt != nil {
		if err := icpt(&r); err != nil {
			s.mu.Lock()
			s.log[idx].Err = err.Error()
			s.mu.Unlock()
			return idx, err
		}
	}
	return idx, nil
}

func (c *Client) DeleteObjectWithContext(ctx aws.Context, in *s3.DeleteObjectInput, _ ...request.Option) (*s3.DeleteObjectOutput, error) {
	_, err := c.begin(ctx, "DELETE", *in.Key)
	if err != nil {
		return nil, err
	}
	c.s.mu.Lock()
	defer c.s.mu.Unlock()
	delete(c.s.objs, *in.Key)
	return &s3.DeleteObjectOutput{}, nil
}

func (c *Client) GetObjectWithContext(ctx aws.Context, in *s3.GetObjectInput, _ ...request.Option) (*s3.GetObjectOutput, error) {
	idx, err := c.begin(ctx, "GET", *in.Key)
	if err != nil {
		return nil, err
	}
	c.s.mu.Lock()
	defer c.s.mu.Unlock()
	b, ok := c.s.objs[*in.Key]
	if !ok {
		c.s.log[idx].Miss = true
		return nil, awserr.New(s3.ErrCodeNoSuchKey, "The specified key does not exist.", nil)
	}
	return &s3.GetObjectOutput{Body: io.NopCloser(bytes.NewReader(b))}, nil
}

func (c *Client) ListObjectsV2WithContext(ctx aws.Context, in *s3.ListObjectsV2Input, _ ...request.Option) (*s3.ListObjectsV2Output, error) {
	prefix := ""
	if in.Prefix != nil {
		prefix = *in.Prefix
	}
	_, err := c.begin(ctx, "LIST", prefix)
	if err != nil {
		return nil, err
	}
	c.s.mu.Lock()
	ks := c.s.keysLocked(prefix)
	lf := c.s.ListFilter
	c.s.mu.Unlock()
	if lf != nil {
		ks = lf(c.id, prefix, ks)
	}
	out := &s3.ListObjectsV2Output{IsTruncated: aws.Bool(false)}
	for _, k := range ks {
		k := k
		out.Contents = append(out.Contents, &s3.Object{Key: &k})
	}
	return out, nil
}

func (c *Client) PutObjectWithContext(ctx aws.Context, in *s3.PutObjectInput, _ ...request.Option) (*s3.PutObjectOutput, error) {
	b, rerr := io.ReadAll(in.Body)
	idx, err := c.begin(ctx, "PUT", *in.Key)
	if err != nil {
		return nil, err
	}
	if rerr != nil {
		return nil, rerr
	}
	c.s.mu.Lock()
	defer c.s.mu.Unlock()
	if old, ok := c.s.objs[*in.Key]; ok {
		if !bytes.Equal(old, b) {
			c.s.rewrite = append(c.s.rewrite, *in.Key)
		}
	} else {
		c.s.born[*in.Key] = c.s.log[idx].Seq
		c.s.log[idx].New = true
	}
	c.s.objs[*in.Key] = b
	return &s3.PutObjectOutput{}, nil
}

// ---- registry: bucket name -> store (consulted by the OpenKV hook) ----

var (
	regMu sync.Mutex
	reg   = map[string]*Store{}
)

func Register(bucket string, s *Store) {
	regMu.Lock()
	defer regMu.Unlock()
	reg[bucket] = s
}

func Unregister(bucket string) {
	regMu.Lock()
	defer regMu.Unlock()
	delete(reg, bucket)
}

func Lookup(bucket string) *Store {
	regMu.Lock()
	defer regMu.Unlock()
	return reg[bucket]
}
