BASELINE_OFF = "cd /repo && PATH=/root/go/pkg/mod/golang.org/toolchain@v0.0.1-go1.25.0.linux-amd64/bin:$PATH GOFLAGS=-mod=mod GOPROXY=off GOTOOLCHAIN=local go test -json -vet=off -count=1 -timeout 25m ./..."

TRUST = "Trusted base: SQLite and the mattn driver (parameter binding), the in-memory object store's fidelity (read-after-write, list-after-write, atomic single-object PUT, NoSuchKey for a missing object, idempotent DELETE), rapid's generators/shrinker, and the harness's own oracle code named in DESIGN.md for this property."

def chk(pid, cat, text, technique, note=TRUST, ref=None):
    return {
        "property_id": pid,
        "quick_cmd": "./check %s quick" % pid,
        "thorough_cmd": "./check %s thorough" % pid,
        "evidence_file": "/verif/evidence/%s.json" % pid,
        "replay_cmd_template": "./check %s --replay {path}" % pid,
        "engine": "rapid-harness",
        "level_claimed": {"category": cat, "text": text, "design_ref": ref or ("DESIGN.md section 5, " + pid)},
        "level_note": note,
        "technique": technique,
    }

CHECKS = []
NOT_YET = {}

CHECKS.append(chk("C16", "exploration",
    "Generated single-writer histories over all rows-per-object settings and cache sizes; after every commit the version is walked with harness-owned decoders (existence, decodability, link-vector shape, strict key order under an independent comparator, recorded size) and re-read by a fresh read-only connection whose rows, point lookups and entry-level dump (timestamps, offsets, previous-version names) must equal the writer's in-memory tree; generated nodes go through the node codec and back; the store flags any name re-written with different bytes; no-op statements must add zero PUTs; histories contain one commit and one s3db_vacuum under storage faults (incl. faults that only hit the retirement of the parent version), after which the same handle goes on and every version listed as current must be complete. No counterexample in N generated cases; not a proof of absence.",
    "property-based testing (rapid): round-trip + differential (writer vs fresh open) + invariant over request log"))

CHECKS.append(chk("C06", "exploration",
    "Differential testing against SQLite itself: generated programs (INSERT/UPDATE/DELETE/SELECT grammar over keys of all classes, predicates = < <= > >= IN BETWEEN, ORDER BY asc/desc, LIMIT/OFFSET, aggregates, transactions, re-opens) run in lock-step on an s3db table (rows-per-object 2..4096, node cache sizes) and a native WITHOUT ROWID table; statement outcome classes and result rows (sequences when ordered by key, multisets otherwise) must agree after every statement. Two further sub-checks run the same differential runner on tables without a key column and over keys that tie across the two numeric representations (incl. magnitudes >= 2^53); a quarter of the programs contain a same-write-time write/delete/re-insert pattern on one key. Open findings K3/K4 are steered away from by construction (counted) and reported from their witnesses.",
    "property-based differential testing (rapid) against native SQLite"))

CHECKS.append(chk("C01", "exploration",
    "Metamorphic + model: generated multi-writer histories (autocommit statements, transactions, refreshes, byte-identical retries, partial opens that commit merges of a subset of the frontier, unique write times in arbitrary order); at checkpoints 4-6 readers on copies of the bucket - read-only and read-write, four merge orders chosen through the permutation hook, plus copies where every retired version is listed as current again - must return identical rows, equal to an operation-based reference model; three read-write opens in a row must converge to one current version and write nothing more. On single-node trees writers use node caches and a third of the transactions end in ROLLBACK. A function-level sub-check verifies idempotence, commutativity and associativity of the row merge on generated rows.",
    "stateful property-based testing (rapid): metamorphic relation over merge order/grouping/repetition + independent operation-based model"))
CHECKS.append(chk("C02", "exploration",
    "Model-based: the same multi-writer runner biased to long per-key sequences (insert, partial updates, delete, re-insert) at non-monotone unique write times over 1-3 writers; after every statement the issuing writer's outcome class and rows, and at checkpoints all merged observers, must equal the operation-based reference model (row status by latest INSERT/DELETE, each column by latest assignment), which is by construction independent of how statements are spread over writers.",
    "stateful property-based testing (rapid) against an independent operation-based reference model"))

CHECKS.append(chk("C07", "exploration",
    "Function level: generated triples of key values (boundary-seeded, ties by construction) must make the key comparison reflexive, antisymmetric, transitive and equal in sign to SQLite's own comparison (native SQLite and an independent harness comparator, cross-checked against each other); keys that compare equal must get the same tree level for every rows-per-object setting. SQL level: tables filled with keys that tie across representations are compared statement by statement with a native WITHOUT ROWID table (outcome classes, ORDER BY, point and range lookups, after reconnect).",
    "property-based testing (rapid): algebraic laws + differential against native SQLite"))

CHECKS.append(chk("C08", "exploration",
    "Round trip against SQLite: generated rows with boundary-seeded values of every storage class in key and non-key position (and omitted columns) are written by two writers and bound identically into a native table; (value bits, typeof) of every cell must be equal after commit, after re-open on a new connection, after merging another writer's version, after delete+vacuum and from a fresh read-only open; single cells are then UPDATEd, half of the new values derived from what the cell holds (other numeric representation, -0.0 for 0.0, neighbour, same bytes in the other class), and older versions of shared keys are written by the other writer. TEXT that is not valid UTF-8 may be refused (the table must stay usable) but never altered.",
    "property-based round-trip / differential testing (rapid) against native SQLite"))

CHECKS.append(chk("C09", "exploration",
    "Generated multi-writer histories rich in returns to earlier content, with s3db_vacuum at arbitrary points and cutoffs before/at/after write times and year 2100. Per vacuum: rows on the vacuuming connection unchanged and equal to the reference model; fresh read-only and read-write observers equal to the model; every version object left in the bucket is walked with harness-owned decoders and every node link must resolve; every earlier recorded s3db_version (cutoff below its creation time) is re-opened restricted to that version and must give its recorded rows; later statements are checked against the model. A quarter of the vacuums run under a storage fault (the connection must go on showing its rows without a refresh); one statement in eight commits while the retirement of its parent fails; histories may start with the 'content returns' pattern (row written, deleted, vacuumed away, written again byte-identically, node caches on). A kv-level sub-check does the latter deterministically. Crash points inside vacuum are enumerated under C04.",
    "stateful property-based testing (rapid): invariants over the bucket (reachability walk) + model + re-read of recorded versions"))
CHECKS.append(chk("C10", "exploration",
    "Same histories; after every successful vacuum the entry-level dump of the vacuumed tree must hold no delete marker older than the cutoff and no purge tombstone (size = entries); for the year-2100 cutoff no ancestor version object and no node object that only deleted versions referred to may be left; repeating the same vacuum must leave the bucket byte-identical and the rows unchanged; rows deleted at/after the cutoff keep winning over older late-arriving writes, as the reference model (which forgets purged markers) predicts. Version-side cutoffs other than 'all/none' are not reachable at SQL level because version creation time is the wall clock (see DESIGN.md).",
    "stateful property-based testing (rapid): post-conditions over entry-level dump and bucket listing + idempotence (metamorphic) + model"))

CHECKS.append(chk("C11", "exploration",
    "Multi-writer histories with (s3db_version, rows) recorded after every step; at generated points every recorded version is re-opened restricted to exactly those names (Go-level read-only open and s3db_changes(from='[]',to=V)) and must give the recorded rows whatever happened since; s3db_version must not move across steps that add no effective operation (no row matched, refused statement, quiescent refresh) and must move whenever the visible rows change; read-only opens must report exactly the names under root/current/, read-write opens one name whose recorded parents (harness decoder) are that frontier. A second sub-check runs C14's fault-enumeration runner for every statement kind that commits and re-opens every recorded version after each fault run.",
    "stateful property-based testing (rapid): history invariant over recorded (version, rows) pairs"))
CHECKS.append(chk("C12", "fault_enumeration",
    "Generated ordered pairs (A,B) of recorded versions (incl. A after B, A=B, other writers' versions, far-apart pairs, version VECTORS naming two recordings at once, versions on both sides of a vacuum, multi-node trees sharing subtrees): s3db_changes(from=A,to=B) must return only rows of B, each once, and every row of B that is absent from or different in A, and must not fail; in fault mode the query is repeated with the p-th storage request of the diff failing for every p (exhaustive per pair): the query must fail or still satisfy both directions.",
    "property-based testing (rapid) with a two-sided set oracle + exhaustive single-fault enumeration per generated pair"))

CHECKS.append(chk("C13", "exploration",
    "Generated multi-writer histories with a table created with the readonly option on its own object-store client, driven through SELECT, s3db_refresh, s3db_version, an s3db_changes table over it, s3db_vacuum with any cutoff and INSERT/UPDATE/DELETE attempts inside and outside transactions while other writers keep committing; invariant after every step: that client's request log holds no PUT and no DELETE; write statements addressing at least one row fail; its rows equal the reference model of what was committed at its last open/refresh.",
    "stateful property-based testing (rapid): invariant over the per-client request log of the fake object store + model"))

CHECKS.append(chk("C04", "fault_enumeration",
    "A generated committed multi-writer prefix is followed by a victim (read-write open that may commit a merge, then nothing / an autocommit statement / a transaction of 1-4 statements / s3db_vacuum). A fault-free reference run gives the contents before and after and the number M of mutating requests; for every k in 0..M (exhaustive per case) the victim is re-run on a fresh copy of the bucket with every request after its k-th mutation failing (the process dies), then a read-only, a read-write and a third recovery open must succeed, agree, show exactly the old or the new contents (new if acknowledged; unchanged for vacuum), and the current versions must resolve all node links.",
    "property-based generation of histories (rapid) + exhaustive crash-point enumeration per case through the fake object store"))
CHECKS.append(chk("C14", "fault_enumeration",
    "A generated committed prefix, then one target statement on a fresh handle (full/point/descending SELECT, autocommit write, transaction, s3db_refresh, s3db_version, s3db_changes read, s3db_vacuum, CREATE of a further table; read-only handles keep several versions unmerged so merges run under fault). A reference run gives result and request count R; the statement is re-run for every p<R with a single transport error at p and with persistent failure from p on, and once with the connection deadline in the past: it must return an error or exactly the reference result, stay within 50R+1000 requests (no retry loop; a panic kills the worker and is reported from the journal), and after the fault clears s3db_refresh on the same connection and a fresh connection must agree, show exactly the contents before or after the statement (after if it reported success) and accept a follow-up write that a fresh open sees. Variants: a further writer commits after the target handle was opened (vacuum next to an unmerged sibling version), transactions that continue after a statement failed with a storage error (that statement must have had no effect), continuing without refresh, re-opening every recorded version, repeating a failed CREATE under the same name.",
    "property-based generation of programs (rapid) + exhaustive single/persistent fault enumeration per statement through the fake object store"))

CHECKS.append(chk("C05", "exploration",
    "State-machine generation on one connection plus an observer connection: autocommit statements and BEGIN..COMMIT / ROLLBACK / COMMIT-with-injected-storage-fault transactions (multi-row, duplicate-key and NULL-key statements inside), with explicit per-statement write_time or none, on tables pre-filled to several tree heights. Oracles: reads-own-writes against the reference model after every statement; the observer (refresh + scan) equals the committed model before and after the transaction ends; a rollback of either kind restores rows, s3db_version and the set of version objects (explicit rollback: zero PUT/DELETE); a COMMIT adds at most one version (exactly one if rows changed); entry-level timestamps of a transaction without write_time are one instant and write_time reads NULL again; a third of the transactions also write a second s3db table of the connection (one write time across both tables). Open findings K3/K4 are steered away from (counted) and reported from their witnesses.",
    "stateful property-based testing (rapid) against a reference model + request-log and bucket-listing invariants + injected commit faults"))

CHECKS.append(chk("C15", "exploration",
    "(a) Multi-writer histories with unique write times in arbitrary order (every writer's clock rewinds) and byte-identical retries of earlier effective single-key statements on any writer: all outcomes and rows are compared with the reference model (an older write never overrides a newer one, cell by cell); around every retry the merged table must be unchanged, and so must the rows of a retrying writer that already holds the effect. (b) A state machine over UPDATE s3db_conn (valid, NULL, '', malformed; one or both columns), reads of s3db_conn, INSERTs and transactions with mid-transaction write_time changes, on two tables and a second untouched connection: attributes read back exactly the last accepted values, every written cell carries the write_time in force for its statement, a past deadline fails exactly the writes issued while set, nothing moves on the other connection.",
    "stateful property-based testing (rapid): model + metamorphic (retry leaves merged contents unchanged) + entry-level timestamp inspection"))

CHECKS.append(chk("C20", "exploration",
    "Grammar-based generation of CREATE VIRTUAL TABLE argument lists over the documented surface (column specifications with plain / single- / double-quoted names incl. spaces, keywords, non-ASCII and embedded quotes, optional types, PRIMARY KEY inline or trailing, NOT NULL on the key, keyword case and whitespace varied; options in any order), half of them with one mutation from the property's list of invalid forms. Accept oracle: pragma table_info equals that of a native table declared from the same specification with proper quoting, rows come back under the specified names, a NULL key is refused. Reject oracle: error, no table registered, no PUT/DELETE in the request log, the corrected definition of the same name then succeeds; rejections at open time (s3_endpoint without s3_bucket, a bucket that refuses every request) and text after the closing quote of columns= are included, and what is written must lie under the given s3_prefix. Thorough tier adds coverage-guided native fuzzing of the columns parser (no panic, no hang).",
    "grammar-based property-based testing (rapid) with accept/reject model + differential declaration check against SQLite; native go fuzzing of the parser"))

CHECKS.append(chk("C18", "exploration",
    "Through the public V1NodeEncryptor: round trip for every plaintext length 0..200 and block edges / large sizes; encrypting twice and under a second instance is byte-identical (deduplication); one generated corruption per case (bit flip anywhere, substitution, truncation, extension, nonce swap, wrong passphrase) must be an error; a harness-owned sealer for the earlier box format (validated byte-for-byte against the package's reference sealer) produces ciphertexts that must decrypt to the plaintext (open finding K6 beyond 32 bytes). kv level over the fake store: no node object contains generated key/value markers (control run without encryptor must show them), same content gives same node names and bytes across buckets and stores no new node object when the nodes exist, one flipped bit in a stored node or another passphrase makes open/Get fail; in a third of the cases one node PUT fails once and the application starts over (nothing that reached the bucket may be plaintext). Thorough adds coverage-guided native fuzzing of Decrypt with an exact oracle (whatever is accepted must re-seal to the input).",
    "property-based testing (rapid): round-trip, determinism, tamper/negative cases, differential legacy sealer; native go fuzzing with a re-seal oracle"))

CHECKS.append(chk("C17", "exploration",
    "State machine directly on kv.DB over the fake store (1-3 handles; Set/Tombstone with unique times in arbitrary order, Commit, Clone, Reopen merging all current versions in a generated order, RemoveTombstones, Diff, TraceHistory; default, conflict-callback and custom-merge modes; gob and JSON node codecs; three node formats; branch factor 2-4096). After every step Get, IsTombstoned, Size and a full cursor scan with times and tombstones must equal a map model of the documented join; Diff must report exactly the keys whose visible value differs, each once, with both values; TraceHistory (also of currently tombstoned keys) must start at the current value or kept tombstone and yield only values that were Set, in strictly decreasing time; the conflict callback must only see two different live values held by the merged versions.",
    "stateful model-based property-based testing (rapid) against a map reference model"))

CHECKS.append(chk("C03", "exploration",
    "Schedules are generated inputs: 2-3 clients run scripts (autocommit writes on their own key ranges, s3db_refresh, read-only opens) on their own goroutines, but every client blocks in the fake store before each LIST and each GET/PUT/DELETE under root/ and runs only when a deterministic scheduler releases it according to the generated schedule, so the interleaving of version-level requests is exactly the generated one. History oracle: for every completed open or refresh the rows of every client must equal one of that client's committed states j, lo<=j<=hi (lo = its commits acknowledged before the open began, hi = its commits started before the open ended); at the end a fresh open must contain every acknowledged commit. A third of the sampled cases add windows of delayed visibility of tree nodes. A second sub-check takes generated small two-client scenarios and executes EVERY interleaving of their version-level requests (depth-first with re-execution; about 100 per scenario; capped scenarios are counted).",
    "property-based testing (rapid) with a harness-owned deterministic scheduler at object-store request granularity + history invariant"))

CHECKS.append(chk("C19", "exploration",
    "Built with the Go race detector: 2-6 connections, one goroutine each (GOMAXPROCS 2/4/16, generated yields), with tables on private prefixes, on a shared prefix with own key ranges, and on the built-in in-memory bucket, running generated streams of writes with connection-specific write times, transactions, scans, s3db_refresh, s3db_vacuum, s3db_version, deadline updates and CREATE/DROP of further tables. Oracles: no race report (the report text is saved beside the case), every goroutine finishes (300 s watchdog with goroutine dump), s3db_conn shows the connection's own values after every statement, written cells carry the connection's own write times, each table's own rows equal the connection's statements applied sequentially, and a final fresh open of the shared prefix equals the union of the sharing connections' models. Two further sub-checks: tables WITHOUT s3_bucket created by 2-8 threads at once, one case per process over waves of processes (first use of the process-wide in-memory bucket); and connections of one process used strictly one after another on one prefix with node caches on (no cross-talk through process-wide state). Thread schedules are the Go scheduler's, not owned by the harness.",
    "randomised concurrent stress under the Go race detector with per-connection sequential reference models (rapid-generated streams)",
    note=TRUST + " The race detector is a dynamic happens-before checker over the schedules that happened. AWS_CA_BUNDLE is removed from the environment of the check processes (with it the AWS SDK's NewSession races on the shared http.DefaultClient, an SDK/sandbox artefact)."))

for pid in []:
    NOT_YET[pid] = "check under construction in this session (designed in DESIGN.md section 5); not claimed until its quick tier runs clean on the unchanged tree"

MANIFEST = {
    "version": 1,
    "setup_cmd": "./setup.sh",
    "hooks": {
        "guard": "verif",
        "enable": "go test -tags verif (harness module /verif/harness, replace github.com/jrhy/s3db => /repo)",
        "baseline_off_cmd": BASELINE_OFF,
        "source_commits": ["8e05d25", "a474f94"],
        "add_only": True,
    },
    "engines": [
        {"name": "rapid-harness", "path": "/verif/harness", "serves_properties": [c["property_id"] for c in CHECKS],
         "kind_free_text": "Go test binary (pgregory.net/rapid v1.3.0 generators + native go fuzz targets) driven by /verif/driver.py: builds against /repo with -tags verif, shards by seed over processes, merges statistics into evidence, replays saved cases"},
    ],
    "checks": CHECKS,
    "not_applicable": [{"property_id": k, "reason": v} for k, v in sorted(NOT_YET.items())],
    "notes": "Exit codes: 0 held (KNOWN-FINDING lines for listed open findings), 1 violation (VIOLATION property=<id> replay=<path>), 2 inconclusive. VERIF_SEED selects the rapid seeds. Known findings: /verif/known_findings.json.",
}
