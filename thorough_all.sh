#!/bin/bash
# run every thorough tier against a snapshot of /repo; results under ./thorough-results/
[ -n "$VP_RUN_REPO" ] || { echo "VP_RUN_REPO is not set: start with vp run --with-repo"; exit 2; }
export VERIF_REPO=$VP_RUN_REPO
export VERIF_EVIDENCE_DIR=$PWD/thorough-results/evidence VERIF_FOUND_DIR=$PWD/thorough-results/found
mkdir -p thorough-results
for p in ${THOROUGH_LIST:-C03 C16 C12 C14 C17 C06 C05 C08 C09 C10 C20 C19 C13 C15 C07 C04 C02 C01 C11 C18}; do
  s=$(date +%s)
  ./check $p thorough > thorough-results/$p.log 2>&1
  echo "$p exit=$? $(( $(date +%s) - s ))s $(head -c 300 thorough-results/$p.log | head -3 | tr '\n' ' ')"
done
