# Per-property configuration of the generated tier: which test functions make up
# the check, how many cases per tier, over how many processes.
CHECKS = {}

def _sub(test, quick, thorough, sq=4, st=16, **kw):
    d = {"test": test, "cases": {"quick": quick, "thorough": thorough}, "shards": {"quick": sq, "thorough": st}}
    d.update(kw)
    return d

CHECKS["C16"] = {
    "level": "exploration",
    "subs": [
        _sub("TestC16_Codec", 40000, 1200000, sq=4, st=6),
        _sub("TestC16_History", 2400, 72000, sq=10, st=10),
        _sub("TestC16_KVContentReturns", 1000, 40000, sq=2, st=2),
    ],
    "assumptions": ["fake object store is faithful for read-after-write, list-after-write, atomic single-object PUT, NoSuchKey on missing GET"],
}

CHECKS["C06"] = {
    "level": "exploration",
    "subs": [
        _sub("TestC06_Diff", 4000, 160000, sq=12, st=12),
        _sub("TestC06_NoKey", 1200, 40000, sq=4, st=4),
        _sub("TestC06_Twins", 1000, 40000, sq=4, st=4),
    ],
}

CHECKS["C01"] = {
    "level": "exploration",
    "subs": [
        _sub("TestC01_Converge", 2400, 100000, sq=12, st=12),
        _sub("TestC01_MergeLaws", 1600, 60000, sq=4, st=4),
    ],
}

CHECKS["C02"] = {
    "level": "exploration",
    "subs": [
        _sub("TestC02_Model", 3000, 100000, sq=16, st=16),
    ],
}

CHECKS["C07"] = {
    "level": "exploration",
    "subs": [
        _sub("TestC07_Order", 120000, 4000000, sq=6, st=8),
        _sub("TestC07_SQL", 1500, 60000, sq=10, st=8),
    ],
}

CHECKS["C08"] = {
    "level": "exploration",
    "subs": [
        _sub("TestC08_Fidelity", 2500, 100000, sq=16, st=16),
    ],
}

CHECKS["C09"] = {
    "level": "exploration",
    "subs": [
        _sub("TestC09_Vacuum", 1600, 40000, sq=14, st=14),
        _sub("TestC09_KVContentReturns", 1500, 60000, sq=2, st=2),
    ],
}
CHECKS["C10"] = {
    "level": "exploration",
    "subs": [
        _sub("TestC10_Reclaim", 1000, 30000, sq=12, st=12),
        _sub("TestC10_KVCutoff", 3000, 120000, sq=4, st=4),
    ],
}

CHECKS["C11"] = {
    "level": "exploration",
    "subs": [
        _sub("TestC11_Versions", 2000, 60000, sq=10, st=10),
        _sub("TestC11_UnderFaults", 300, 12000, sq=5, st=5),
        _sub("TestC11_KVCutoff", 2000, 80000, sq=1, st=2),
        _sub("TestC11_KVHandles", 2000, 80000, sq=2, st=4),
    ],
}
CHECKS["C12"] = {
    "level": "fault_enumeration",
    "subs": [
        _sub("TestC12_Changes", 2000, 60000, sq=16, st=16),
    ],
}

CHECKS["C13"] = {
    "level": "exploration",
    "subs": [
        _sub("TestC13_ReadOnly", 2000, 60000, sq=16, st=16),
    ],
}

CHECKS["C04"] = {
    "level": "fault_enumeration",
    "subs": [
        _sub("TestC04_Crash", 1500, 50000, sq=16, st=16),
    ],
}

CHECKS["C14"] = {
    "level": "fault_enumeration",
    "subs": [
        _sub("TestC14_Faults", 500, 25000, sq=10, st=10),
        _sub("TestC14_ContinuedTxn", 400, 16000, sq=6, st=6),
    ],
}

CHECKS["C05"] = {
    "level": "exploration",
    "subs": [
        _sub("TestC05_Txn", 2500, 80000, sq=16, st=16),
    ],
}

CHECKS["C15"] = {
    "level": "exploration",
    "subs": [
        _sub("TestC15_Retry", 1500, 60000, sq=10, st=10),
        _sub("TestC15_Attrs", 3000, 120000, sq=6, st=6),
    ],
}

CHECKS["C20"] = {
    "level": "exploration",
    "subs": [
        _sub("TestC20_DDL", 6000, 240000, sq=16, st=12),
        {"test": "FuzzSchemaParser", "kind": "fuzz", "fuzztime": "90s", "workers": 4, "cases": {"quick": 0, "thorough": 0},
         "rule": "native go fuzzing of the exported columns parser (sql.Schema) with a seed corpus of valid and invalid specifications: no panic, no hang; distinct non-trivial = inputs that reached new coverage"},
    ],
}

CHECKS["C18"] = {
    "level": "exploration",
    "subs": [
        _sub("TestC18_Box", 16000, 400000, sq=10, st=10),
        _sub("TestC18_KV", 1500, 60000, sq=6, st=6),
        {"test": "FuzzDecrypt", "kind": "fuzz", "fuzztime": "120s", "workers": 6, "cases": {"quick": 0, "thorough": 0},
         "rule": "native go fuzzing of V1NodeEncryptor.Decrypt seeded with valid ciphertexts of both formats: never panics; whatever it accepts must be byte-identical to a message sealed (by the encryptor, by the harness's sealer for the earlier format, or by NaCl secretbox) from the returned plaintext under the nonce in front; distinct non-trivial = inputs that reached new coverage"},
    ],
}

CHECKS["C17"] = {
    "level": "exploration",
    "subs": [
        _sub("TestC17_KV", 5000, 200000, sq=16, st=16),
    ],
}

CHECKS["C19"] = {
    "level": "exploration",
    "race": True,
    "subs": [
        _sub("TestC19_Threads", 640, 24000, sq=8, st=8),
        # one case per process, several processes one after another per shard
        _sub("TestC19_FirstUse", 8, 8, sq=6, st=6, waves={"quick": 4, "thorough": 80}),
        _sub("TestC19_Sequential", 400, 16000, sq=2, st=2),
        _sub("TestC19_SharedHistory", 600, 24000, sq=6, st=6),
        _sub("TestC19_StalledOpen", 200, 8000, sq=4, st=8),
    ],
    "watchdog": {"quick": 900, "thorough": 7200},
}

CHECKS["C03"] = {
    "level": "exploration",
    "subs": [
        _sub("TestC03_Sched", 12000, 400000, sq=12, st=8),
        # every interleaving of small two-client scenarios (about 100 interleavings per scenario)
        _sub("TestC03_Exhaustive", 40, 2400, sq=4, st=8),
    ],
}
