#!/usr/bin/env python3
"""Writes MANIFEST.json from manifest_src.py (kept in one place so it stays valid)."""
import json, os, sys
sys.path.insert(0, os.path.dirname(os.path.abspath(__file__)))
from manifest_src import MANIFEST
json.dump(MANIFEST, open(os.path.join(os.path.dirname(os.path.abspath(__file__)), "MANIFEST.json"), "w"), indent=1)
print("ok", len(MANIFEST["checks"]), "checks;", len(MANIFEST.get("not_applicable", [])), "not applicable")
